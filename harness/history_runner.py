"""Runs one history of API operations in a fresh interpreter and prints the outcome of every evaluation as JSON.
A history is a list of operations:
  ["env", name, runner, package, declarations]     declarations: {dotted name: "int"|"map"}
  ["prog", name, envname, text]
  ["eval", progname, bindings]                      bindings: {dotted name: json value}
"""
import json
import sys


def main():
    import celpy
    import celpy.celtypes as ct
    from celpy.adapter import json_to_cel, CELJSONEncoder
    hist = json.loads(sys.argv[1])
    envs, progs, out = {}, {}, []
    types = {"int": ct.IntType, "map": ct.MapType, "string": ct.StringType, "double": ct.DoubleType, "uint": ct.UintType, "bool": ct.BoolType}
    for op in hist:
        try:
            if op[0] == "env":
                _, name, runner, package, decls = op
                envs[name] = celpy.Environment(package=package, annotations={k: types[v] for k, v in decls.items()},
                                               runner_class=getattr(celpy, runner))
            elif op[0] == "prog":
                _, name, envname, text = op[:4]
                env = envs[envname]
                funcs = None
                if len(op) > 4 and op[4]:
                    def mk(fname):
                        def f(*a):
                            return ct.IntType(4242)
                        f.__name__ = fname
                        return f
                    fl = [mk(fn) for fn in op[4]["names"]]
                    funcs = fl if op[4]["style"] == "list" else {f.__name__: f for f in fl}
                progs[name] = env.program(env.compile(text), functions=funcs)
            elif op[0] == "eval":
                _, pname, bindings = op
                def typed(v):
                    # {"$t": kind, "v": text}: a CEL value JSON cannot spell (uint, a signed zero, bytes, an explicit kind)
                    if isinstance(v, dict) and "$t" in v:
                        k, x = v["$t"], v["v"]
                        return {"int": lambda: ct.IntType(int(x)), "uint": lambda: ct.UintType(int(x)), "double": lambda: ct.DoubleType(float(x)),
                                "bool": lambda: ct.BoolType(x == "true"), "string": lambda: ct.StringType(x), "bytes": lambda: ct.BytesType(x.encode())}[k]()
                    return json_to_cel(v)
                b = {k: typed(v) for k, v in bindings.items()}
                before = json.dumps({k: json.loads(json.dumps(v, cls=CELJSONEncoder)) for k, v in b.items()}, sort_keys=True)
                try:
                    v = progs[pname].evaluate(b)
                    if isinstance(v, float):
                        res = ["value", type(v).__name__, repr(float(v))]        # keeps the sign of zero, inf and nan
                    else:
                        try:
                            res = ["value", type(v).__name__, json.loads(json.dumps(v, cls=CELJSONEncoder))]
                        except TypeError:
                            res = ["value", type(v).__name__, repr(v)]
                except celpy.CELEvalError:
                    res = ["error"]
                after = json.dumps({k: json.loads(json.dumps(v, cls=CELJSONEncoder)) for k, v in b.items()}, sort_keys=True)
                if before != after:
                    res.append("BINDINGS-MODIFIED")
                out.append(res)
        except Exception as ex:        # anything else is reported as such (C04's business, but it also breaks independence)
            out.append(["escaped", type(ex).__name__, str(ex)[:80]])
    print(json.dumps(out))


if __name__ == "__main__":
    main()
