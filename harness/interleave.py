"""Deterministic schedule exploration with one preemption: thread A evaluates its own program and is suspended at the
k-th executed line inside the library; thread B (its own environment and program) then evaluates completely; A resumes.
A's result must be what it returns alone.  Run for every k (or a stride)."""
import json
import sys
import threading


def explore(runner_a, prog_a, bind_a, runner_b, prog_b, bind_b, stride=1, max_points=4000, include_setup=False, fresh_parser=False):
    import celpy
    import celpy.celtypes as ct
    from celpy.adapter import json_to_cel, CELJSONEncoder
    libdir = celpy.__file__.rsplit("/", 1)[0]

    def build(runner, text):
        env = celpy.Environment(runner_class=getattr(celpy, runner))
        return env.program(env.compile(text))

    def outcome(fn):
        try:
            v = fn()
            return ["value", type(v).__name__, json.loads(json.dumps(v, cls=CELJSONEncoder))]
        except celpy.CELEvalError:
            return ["error"]
        except Exception as ex:
            return ["escaped", type(ex).__name__]
    ba = {k: json_to_cel(v) for k, v in bind_a.items()}
    bb = {k: json_to_cel(v) for k, v in bind_b.items()}
    pa = build(runner_a, prog_a)
    pb = build(runner_b, prog_b)
    solo_a = outcome(lambda: pa.evaluate(ba))
    solo_b = outcome(lambda: pb.evaluate(bb))
    # count line events of A's evaluation
    count = [0]

    def counter(frame, event, arg):
        if frame.f_code.co_filename.startswith(libdir) or frame.f_code.co_filename == "<string>":
            if event == "line":
                count[0] += 1
            return counter
        return None
    if fresh_parser:
        celpy.CELParser.CEL_PARSER = None      # the documented reset: both threads start without a parser
    sys.settrace(counter)
    try:
        if include_setup:
            build(runner_a, prog_a).evaluate(ba)
        else:
            pa.evaluate(ba)
    except Exception:
        pass
    sys.settrace(None)
    total = count[0]
    failures = []
    points = list(range(1, total + 1, stride))[:max_points]
    for k in points:
        paused, resume = threading.Event(), threading.Event()
        seen = [0]
        res = {}

        def tracer(frame, event, arg):
            if frame.f_code.co_filename.startswith(libdir) or frame.f_code.co_filename == "<string>":
                if event == "line":
                    seen[0] += 1
                    if seen[0] == k:
                        paused.set()
                        resume.wait(10)
                return tracer
            return None

        def run_a():
            sys.settrace(tracer)
            try:
                if include_setup:
                    res["a"] = outcome(lambda: build(runner_a, prog_a).evaluate(ba))
                else:
                    res["a"] = outcome(lambda: pa.evaluate(ba))
            finally:
                sys.settrace(None)
                paused.set()
        if fresh_parser:
            celpy.CELParser.CEL_PARSER = None
        t = threading.Thread(target=run_a)
        t.start()
        paused.wait(10)
        if include_setup:
            res["b"] = outcome(lambda: build(runner_b, prog_b).evaluate(bb))
        else:
            res["b"] = outcome(lambda: pb.evaluate(bb))
        resume.set()
        t.join(20)
        if res.get("a") != solo_a or res.get("b") != solo_b:
            failures.append({"preempt_A_at_line_event": k, "of": total, "A": res.get("a"), "A_alone": solo_a, "B": res.get("b"), "B_alone": solo_b})
            if len(failures) >= 3:
                break
    return {"points": len(points), "total_line_events": total, "failures": failures}


def explore2(runner_a, prog_a, bind_a, runner_b, prog_b, bind_b, grid=8):
    """Two preemptions: A is suspended at its k1-th line event, B runs to its k2-th line event and is suspended,
    A runs to completion, then B.  (Partially overlapping evaluations, not only nested ones.)"""
    import celpy
    from celpy.adapter import json_to_cel, CELJSONEncoder
    libdir = celpy.__file__.rsplit("/", 1)[0]

    def build(runner, text):
        env = celpy.Environment(runner_class=getattr(celpy, runner))
        return env.program(env.compile(text))

    def outcome(fn):
        try:
            v = fn()
            return ["value", type(v).__name__, json.loads(json.dumps(v, cls=CELJSONEncoder))]
        except celpy.CELEvalError:
            return ["error"]
        except Exception as ex:
            return ["escaped", type(ex).__name__]
    ba = {k: json_to_cel(v) for k, v in bind_a.items()}
    bb = {k: json_to_cel(v) for k, v in bind_b.items()}
    pa, pb = build(runner_a, prog_a), build(runner_b, prog_b)
    solo_a, solo_b = outcome(lambda: pa.evaluate(ba)), outcome(lambda: pb.evaluate(bb))

    def count(fn):
        c = [0]

        def tr(frame, event, arg):
            if frame.f_code.co_filename.startswith(libdir) or frame.f_code.co_filename == "<string>":
                if event == "line":
                    c[0] += 1
                return tr
            return None
        sys.settrace(tr)
        try:
            fn()
        except Exception:
            pass
        sys.settrace(None)
        return c[0]
    na, nb = count(lambda: pa.evaluate(ba)), count(lambda: pb.evaluate(bb))
    failures = []
    pts_a = sorted({max(1, na * i // grid) for i in range(0, grid + 1)} | {1, 2, 3, na - 1, na})
    pts_b = sorted({max(1, nb * i // grid) for i in range(0, grid + 1)} | {1, 2, 3, nb - 1, nb})
    n = 0
    for k1 in pts_a:
        for k2 in pts_b:
            n += 1
            a_paused, a_go, b_paused, b_go = (threading.Event() for _ in range(4))
            res = {}

            def mk_tracer(k, paused, go):
                seen = [0]

                def tr(frame, event, arg):
                    if frame.f_code.co_filename.startswith(libdir) or frame.f_code.co_filename == "<string>":
                        if event == "line":
                            seen[0] += 1
                            if seen[0] == k:
                                paused.set()
                                go.wait(10)
                        return tr
                    return None
                return tr

            def run(name, prog, b, k, paused, go):
                sys.settrace(mk_tracer(k, paused, go))
                try:
                    res[name] = outcome(lambda: prog.evaluate(b))
                finally:
                    sys.settrace(None)
                    paused.set()
            ta = threading.Thread(target=run, args=("a", pa, ba, k1, a_paused, a_go))
            tb = threading.Thread(target=run, args=("b", pb, bb, k2, b_paused, b_go))
            ta.start()
            a_paused.wait(10)
            tb.start()
            b_paused.wait(10)
            a_go.set()
            ta.join(20)
            b_go.set()
            tb.join(20)
            if res.get("a") != solo_a or res.get("b") != solo_b:
                failures.append({"A_suspended_at": k1, "B_suspended_at": k2, "A": res.get("a"), "A_alone": solo_a, "B": res.get("b"), "B_alone": solo_b})
                if len(failures) >= 3:
                    return {"points": n, "failures": failures}
    return {"points": n, "failures": failures}


if __name__ == "__main__":
    spec = json.loads(sys.argv[1])
    mode = spec.pop("mode", "one")
    print(json.dumps(explore2(**spec) if mode == "two" else explore(**spec)))
