"""C06 (dump half): DumpAST is an unparser - one contract per production of the compiled grammar.

For a production  N -> s1 ... sn  lark builds Tree(N, children) whose children are the sub-trees of the non-terminals
and the Tokens of the *named* terminals (anonymous terminals are filtered out); Visitor_Recursive visits the sub-trees
left to right and then calls DumpAST.N.  Inductive invariant (the contract of every method):

    before: stack == P + [d1 .. dk]      (dj = dump of the j-th sub-tree; P arbitrary)
    after : stack == P + [ yield(N -> s1..sn)[dj / sub-tree j, token.value / named terminal, text / anonymous terminal] ]

compared modulo inter-token whitespace.  With it, dump(t) has the token sequence of the text t was parsed from,
provided no two adjacent tokens merge when written without whitespace - those adjacencies are collected here
(`adjacencies`) and discharged as regular-language obligations in props/c06.py.  The LALR parser is deterministic, so
equal token sequences give equal trees.
The methods are executed symbolically from the real source with symbolic str texts; P is [] or [p0, p1] (the methods
only pop / append / test emptiness).  Variadic productions are expanded to 1, 2 and 3 repetitions."""
import itertools

import lark
import z3

import celpy
import celpy.celparser as cp
from pyvc import verify as V
from pyvc import symexec as se
from pyvc.values import VStr, VObj, VList, VTok, VInt, VNative, NONE

NT, TOKV, LIT = "nt", "tok", "lit"


def compiled():
    celpy.CELParser.CEL_PARSER = None
    p = celpy.CELParser()
    return p, p.parser


def productions(L, reps=(0, 1, 2)):
    """[(node name, [(kind, name/text)])] with star helpers expanded to `reps` repetitions"""
    lit = {t.name: t.pattern.value for t in L.terminals if isinstance(t.pattern, lark.lexer.PatternStr)}
    rules = {}
    for r in L.rules:
        rules.setdefault(r.origin.name, []).append(r)

    def star(name, n):
        base = [r for r in rules[name] if r.expansion[0].name != name][0]
        item = [s for s in base.expansion]
        return item * n
    out = []
    for origin, rs in rules.items():
        if origin.startswith("__"):
            continue
        for r in rs:
            assert not r.options.expand1 and not r.options.keep_all_tokens and r.alias is None, r
            seqs = [[]]
            for s in r.expansion:
                if s.name.startswith("__") and not s.is_term:
                    seqs = [q + star(s.name, n) for q in seqs for n in (1, 2)]
                else:
                    seqs = [q + [s] for q in seqs]
            for q in seqs:
                syms = []
                for s in q:
                    if s.is_term:
                        syms.append((LIT, lit[s.name]) if s.filter_out else (TOKV, s.name))
                    else:
                        syms.append((NT, s.name))
                out.append((origin, syms))
    return out


def flatten(t):
    if z3.is_string_value(t):
        return [(LIT, t.as_string())]
    if z3.is_const(t) and t.decl().kind() == z3.Z3_OP_UNINTERPRETED:
        return [("var", t.decl().name())]
    if t.decl().kind() == z3.Z3_OP_SEQ_CONCAT:
        return [x for c in t.children() for x in flatten(c)]
    raise se.Unsupported(f"text term {t}")


def normal(items, lits):
    """[(kind, text, spaced_before)] : literal segments split at whitespace and into anonymous-terminal texts"""
    out = []
    spaced = True
    for kind, x in items:
        if kind == "var":
            out.append(("var", x, spaced))
            spaced = False
            continue
        i = 0
        while i < len(x):
            if x[i].isspace():
                spaced = True
                i += 1
                continue
            m = next((l for l in lits if x.startswith(l, i)), None)
            if m is None:
                out.append(("junk", x[i:], spaced))
                return out
            out.append((LIT, m, spaced))
            spaced = False
            i += len(m)
    return out


def contracts(adjacencies):
    p, L = compiled()
    D = cp.DumpAST
    prods = productions(L)
    lits = sorted({x for _, syms in prods for k, x in syms if k == LIT}, key=len, reverse=True)
    cons, passthrough = [], []
    seen = set()
    for node, syms in prods:
        sig = node + "[" + " ".join(x if k != LIT else repr(x) for k, x in syms) + "]"
        if sig in seen:
            continue
        seen.add(sig)
        if node not in D.__dict__:
            passthrough.append((node, syms))
            continue
        fn = D.__dict__[node]
        for prefix in ((), ("p0", "p1")):
            args = [(n, V.StrDom(str)) for n in prefix]
            expected = []
            kids = []
            for i, (k, x) in enumerate(syms):
                if k == NT:
                    args.append((f"d{i}", V.StrDom(str)))
                    expected.append(("var", f"d{i}"))
                    kids.append((NT, f"d{i}", x))
                elif k == TOKV:
                    args.append((f"t{i}", V.StrDom(str)))
                    expected.append(("var", f"t{i}"))
                    kids.append((TOKV, f"t{i}", x))
                else:
                    expected.append((LIT, x))

            def invoke(run, S, kids=kids, prefix=prefix, fn=fn, node=node):
                run.ghost["fstring_exact"] = {str}
                ch = []
                for k, name, sym in kids:
                    v = getattr(S, name)
                    if k == NT:
                        ch.append(VObj(lark.Tree, {"data": VStr(str, sym), "children": VList(list, [])}, label=sym))
                    else:
                        ch.append(VTok(lark.Token, v.t, {"type": VStr(str, sym), "value": VStr(str, v.t), "line": VInt(int, 1), "column": VInt(int, 1)}))
                stack = [getattr(S, n) for n in prefix] + [getattr(S, name) for k, name, _ in kids if k == NT]
                d = VObj(D, {"stack": VList(list, stack)}, label="dumper")
                tree = VObj(lark.Tree, {"data": VStr(str, node), "children": VList(list, ch)}, label=node)
                run.call(VNative(fn), [d, tree])
                return run.getattr(d, "stack")

            def native(N, kids=kids, prefix=prefix, node=node, fn=fn):
                ch = [lark.Tree(sym, []) if k == NT else lark.Token(sym, N[name]) for k, name, sym in kids]
                d = D()
                d.stack = [N[n] for n in prefix] + [N[name] for k, name, _ in kids if k == NT]
                fn(d, lark.Tree(node, ch))
                return d.stack

            def post(S, r, expected=expected, prefix=prefix, sig=sig):
                if not isinstance(r, VList) or len(r.items) != len(prefix) + 1:
                    return False
                for n, got in zip(prefix, r.items):
                    if got is not getattr(S, n):
                        return False
                top = r.items[-1]
                if not isinstance(top, VStr) or top.cls is not str:
                    return False
                got = normal(flatten(z3.StringVal(top.t) if isinstance(top.t, str) else top.t), lits)
                want = normal(expected, lits)
                if [(k, x) for k, x, _ in got] != [(k, x) for k, x, _ in want]:
                    return False
                for (k1, x1, _), (k2, x2, sp) in zip(got, got[1:]):
                    if not sp:
                        adjacencies.add(((k1, x1 if k1 == LIT else S.kinds[x1]), (k2, x2 if k2 == LIT else S.kinds[x2]), sig))
                return True

            def setup(run, S, kids=kids):
                S.kinds = {name: ("tok:" if k == TOKV else "nt:") + sym for k, name, sym in kids}
            c = V.Contract(f"celpy.celparser:DumpAST.{node}", args, invoke=invoke, native=native, ret=post, exc={}, cover=False,
                           name=f"DumpAST.{sig}@{'deep' if prefix else 'empty'}", setup=setup)
            c.standin = False       # the clause inspects the structure of the symbolic text (which parts are children's texts); the CPython cross-check replays every path
            cons.append(c)
    return cons, passthrough, prods


def last_sets(L):
    """LAST(N): the terminals that can end a derivation of N (no production is empty)"""
    last = {}
    changed = True
    while changed:
        changed = False
        for r in L.rules:
            assert r.expansion, r
            s = r.expansion[-1]
            add = {s.name} if s.is_term else last.get(s.name, set())
            cur = last.setdefault(r.origin.name, set())
            if not add <= cur:
                cur |= add
                changed = True
    return last
