"""Abstract container elements: values whose pairwise equality outcome is an arbitrary boolean (the induction
hypothesis for nested containers: element equality is some equivalence returning a bool for same-typed elements)."""
import z3

from pyvc import symexec as se
from pyvc.values import VObj, VInt


class Elem:
    def __eq__(self, other):  # pragma: no cover - only its symbolic model is used
        raise NotImplementedError

    def __ne__(self, other):  # pragma: no cover
        raise NotImplementedError

    __hash__ = object.__hash__


def install(run, may_raise=False):
    def eq(run, self, other):
        if may_raise and run.branch(run.fresh("elem_cmp_raises", z3.BoolSort())):
            # differently typed elements: the comparison is a "no such overload" TypeError
            run.ghost.setdefault("elem_raised", []).append(True)
            from pyvc.values import VTuple
            raise se.PyRaise(VObj(TypeError, {"args": VTuple([])}))
        b = run.fresh("elem_eq", z3.BoolSort())
        run.ghost.setdefault("elem_eqs", []).append(b)
        return se.mk_bool(run, b)

    def ne(run, self, other):
        b = run.fresh("elem_eq", z3.BoolSort())
        run.ghost.setdefault("elem_eqs", []).append(b)
        return se.mk_bool(run, z3.Not(b))      # element != is the negation of element == (same-typed elements)
    run.engine.overrides[Elem.__dict__["__eq__"]] = eq
    run.engine.overrides[Elem.__dict__["__ne__"]] = ne


def fresh_elem(run):
    return VObj(Elem, {}, label="elem")
