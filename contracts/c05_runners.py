"""C05 / C16: footprint of one evaluation.  Every heap write performed by Runner.evaluate (both classes) must hit an
object created during the call, or a field of the runner's own transpiler that is written before it is read; the caller's
bindings, the environment, the program's base activation and every process-shared object stay untouched."""
import ast as _ast
import builtins

import z3

import celpy
import celpy.celtypes as ct
import celpy.evaluation as ev
from contracts.evaluator_rules import sym_tree, STUB, install as install_rules
from contracts.logic import OUTCOMES
from pyvc import verify as V
from pyvc import symexec as se
from pyvc.values import VInt, VStr, VObj, VDict, VList, VNative, VTuple, VModel, NONE


def reachable(v, seen):
    if not isinstance(v, se.SV) or id(v) in seen:
        return
    seen[id(v)] = v
    for x in getattr(v, "attrs", None).values() if getattr(v, "attrs", None) else []:
        if isinstance(x, se.SV):
            reachable(x, seen)
    for p in getattr(v, "pairs", []) or []:
        reachable(p[0], seen)
        reachable(p[1], seen)
    for x in getattr(v, "items", []) or []:
        reachable(x, seen)


def footprint_ok(run, S, allowed_fields=()):
    """no write reaches a pre-existing object (except the declared write-before-read fields of the transpiler)"""
    pre = S.pre
    bad = []
    for target, what in run.heap_writes:
        if isinstance(target, VNative):
            bad.append(f"shared {type(target.obj).__name__} {what}")
        elif id(target) in pre:
            if (pre[id(target)], what) in [(S.__dict__.get(o), f"attr:{f}") for o, f in allowed_fields]:
                continue
            bad.append(f"{target!r} {what}")
    for key, v in run.global_overlay.items():
        bad.append(f"module global {key[1]}")
    return bad


def contracts():
    cs = []
    ctx_shapes = {"empty": [], "plain": ["x"], "dotted": ["a.b", "x"]}
    for shape_name, names in ctx_shapes.items():
        # ---------------- InterpretedRunner.evaluate
        def invoke_i(run, S, names=names):
            install_rules(run.engine)
            S.value = OUTCOMES[run.choose(len(OUTCOMES), "root-outcome")].make(run, "root")
            S.ast = sym_tree(run, STUB("value"), S)
            S.environment = VObj(celpy.Environment, {"package": NONE, "annotations": VDict(dict, [[VStr(str, "a.b"), VNative(ct.IntType)],
                                                                                              [VStr(str, "x"), VNative(ct.IntType)]])}, label="environment")
            S.runner = VObj(celpy.InterpretedRunner, {"environment": S.environment, "ast": S.ast, "functions": NONE}, label="runner")
            S.context = VDict(dict, [[VStr(str, n), VInt(ct.IntType, z3.Int("v_" + n.replace(".", "_")))] for n in names])
            S.ctx_pairs = [list(p) for p in S.context.pairs]
            pre = {}
            for o in (S.runner, S.context):
                reachable(o, pre)
            S.pre = pre
            return run.call(run.getattr(S.runner, "evaluate"), [S.context])

        def post_i(S, r=None):
            run = S._run
            bad = footprint_ok(run, S)
            same_ctx = len(S.context.pairs) == len(S.ctx_pairs) and all(a[0] is b[0] and a[1] is b[1] for a, b in zip(S.context.pairs, S.ctx_pairs))
            S.bad = bad
            return bool(not bad and same_ctx)
        cs.append(V.Contract("celpy:InterpretedRunner.evaluate", [], name=f"InterpretedRunner.evaluate footprint ({shape_name} bindings)",
                             invoke=invoke_i, ret=lambda S, r: post_i(S, r) and r is S.value,
                             exc={ev.CELEvalError: lambda S: post_i(S)}, cover=False, native=False))

        # ---------------- Transpiler.evaluate (what CompiledRunner.evaluate delegates to)
        def invoke_c(run, S, names=names):
            # a real transpiled program: x || y  (its text is what exec() runs)
            celpy.CELParser.CEL_PARSER = None
            env = celpy.Environment(annotations={"a.b": ct.IntType, "x": ct.BoolType, "y": ct.BoolType}, runner_class=celpy.CompiledRunner)
            prog = env.program(env.compile("x || y"))
            celpy.CELParser.CEL_PARSER = None
            source = prog.tp.source_text
            code = prog.tp.executable_code
            tree = _ast.parse(source)
            from contracts.c05_base import mk_base
            S.base = mk_base(run)
            S.tp = VObj(ev.Transpiler, {"base_activation": S.base, "activation": S.base, "executable_code": VNative(code),
                                        "source_text": VStr(str, source), "ast": NONE}, label="transpiler")
            S.context = VDict(dict, [[VStr(str, n), VInt(ct.IntType, z3.Int("v_" + n.replace(".", "_")))] for n in names])
            S.ctx_pairs = [list(p) for p in S.context.pairs]
            pre = {}
            for o in (S.tp, S.context):
                reachable(o, pre)
            S.pre = pre

            def exec_model(run, code_, g=None, l=None):
                # execute the generated statements; every top-level name they bind is a write to the namespace g
                class NS(dict):
                    pass
                if isinstance(g, VDict):
                    local = {se.conc(k): v for k, v in g.pairs}
                elif isinstance(g, VNative) and type(g.obj) is dict:
                    local = {k: se.lift(v) for k, v in g.obj.items()}
                    local.update(run.native_overlay.get(id(g.obj), {}))
                else:
                    raise se.Unsupported("exec namespace")
                before = dict(local)
                # the evaluation of the emitted lambdas is C02/C03's business: here only the binding footprint matters
                run.engine.overrides[ev.result] = lambda run, activation, cel_expr: VObj(ct.BoolType, {}, label="CEL-value")
                envx = se.Env(local, None, {})
                run.exec_block(tree.body, envx)
                for k, v in local.items():
                    if k not in before or before[k] is not v:
                        run.setitem(g, VStr(str, k), v)
                return NONE
            run.engine.overrides[builtins.exec] = exec_model
            return run.call(run.getattr(S.tp, "evaluate"), [S.context])

        def post_c(S, r=None):
            run = S._run
            bad = footprint_ok(run, S, allowed_fields=(("tp", "activation"),))
            same_ctx = len(S.context.pairs) == len(S.ctx_pairs) and all(a[0] is b[0] and a[1] is b[1] for a, b in zip(S.context.pairs, S.ctx_pairs))
            S.bad = bad
            return bool(not bad and same_ctx)
        cs.append(V.Contract("celpy.evaluation:Transpiler.evaluate", [], name=f"Transpiler.evaluate footprint ({shape_name} bindings)",
                             invoke=invoke_c, ret=lambda S, r: post_c(S, r), exc={ev.CELEvalError: lambda S: post_c(S)}, cover=False, native=False))
    return cs
