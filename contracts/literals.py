"""C07 - contracts on the literal decoders celstr() / celbytes() (real source, symbolic token text).

The escape kinds, their languages and their values are written here from the property statement, not from the code:
    \\a \\b \\f \\n \\r \\t \\v \\\\ \\" \\'   one character (table SIMPLE)
    \\xHH  \\uHHHH  \\UHHHHHHHH              the code point / octet the hex digits spell
    \\ooo                                   ([0-3][0-7][0-7]) the octal value
    any other character                     itself (strings) / its UTF-8 octets (bytes)

Obligations
  P  celstr / celbytes on a token  <prefix><quote> m1 m2 <quote>  where m1, m2 are ARBITRARY members of two escape kinds
     (all 7 x 7 pairings, every quoting style): the result is value(m1) ++ value(m2); out-of-range -> ValueError/OverflowError
     (which Evaluator.literal turns into an evaluation error).  Raw styles: the result is the body.
  G  tokenisation: the real CEL_ESCAPES_PAT splits a body at exactly the escape boundaries of the statement (for each kind:
     some alternative contains the kind, has its width, and no EARLIER alternative can match where such an escape starts).
     This is what justifies the finditer() contract used in P.
  I  iterations of the decoding loop are independent (no loop-carried variable in the real `expand` bodies), so the
     two-atom result extends to bodies of any length (str.join / bytes(iterable) concatenate; generators are lazy maps: trusted).
"""
import ast

import lark
import z3

import celpy.celtypes as ct
import celpy.evaluation as ev
from pyvc import regexlang as RL
from pyvc import symexec as se
from pyvc import verify as V
from pyvc.models import chr_term, HV_CHR, HV_UTF8
from pyvc.values import VStr, VTok, VObj, VList, VModel, VBytes, VInt

SIMPLE = {"a": 7, "b": 8, "f": 12, "n": 10, "r": 13, "t": 9, "v": 11, "\\": 92, '"': 34, "'": 39}
HEX = "[0-9a-fA-F]"
KINDS = {                                  # kind -> (python regex of the kind's language, width)
    "simple": (r"\\[abfnrtv\\\"']", 2),
    "x": (r"\\x" + HEX + "{2}", 4),
    "u": (r"\\u" + HEX + "{4}", 6),
    "U": (r"\\U" + HEX + "{8}", 10),
    "oct": (r"\\[0-3][0-7]{2}", 4),
    "char": (r"[^\\]", 1),
}
STR_STYLES = [("", '"'), ("", "'"), ("", '"""'), ("", "'''"), ("r", '"'), ("R", "'"), ("r", '"""'), ("R", "'''")]


def code(t, i):
    return z3.StrToCode(z3.SubString(t, i, 1))


def hexval(c):
    """value of a hexadecimal digit character: '0'..'9' -> 0..9, 'a'..'f' / 'A'..'F' -> 10..15 (the same term the engine's model
    of int(text, 16) uses per digit, so that sums over many digits compare syntactically instead of by 3^n case splits)"""
    from pyvc.models import _digit_val
    return _digit_val(c)


def spelled_number(kind, t):
    """the number an escape of this kind spells (z3 Int)"""
    if kind == "simple":
        c = code(t, 1)
        e = z3.IntVal(-1)
        for ch, v in SIMPLE.items():
            e = z3.If(c == ord(ch), z3.IntVal(v), e)
        return e
    if kind in ("x", "u", "U"):
        n = KINDS[kind][1] - 2
        return z3.Sum(*[hexval(code(t, 2 + i)) * 16 ** (n - 1 - i) for i in range(n)])
    if kind == "oct":
        return (code(t, 1) - 48) * 64 + (code(t, 2) - 48) * 8 + (code(t, 3) - 48)
    raise KeyError(kind)


def str_value(kind, t):
    """-> (z3 String the atom denotes, z3 Bool 'is representable')"""
    if kind == "char":
        return t, z3.BoolVal(True)
    v = spelled_number(kind, t)
    return chr_term(None, v), v <= 0x10FFFF


def bytes_value(kind, t):
    """-> (z3 Seq(BV8), representable) ; \\u and \\U are not defined for bytes literals by the statement"""
    if kind == "char":
        return HV_UTF8(t), z3.BoolVal(True)
    v = spelled_number(kind, t)
    return z3.Unit(z3.Int2BV(v, 8)), v <= 255


class AtomDom(V.Dom):
    """an arbitrary member of one escape kind (optionally excluding one character)"""

    def __init__(self, kind, exclude=None):
        self.kind, self.exclude = kind, exclude
        self.label = kind

    def samples(self):
        return []

    def make(self, run, name):
        t = z3.String(name)
        rx, w = KINDS[self.kind]
        run.assume(z3.InRe(t, RL.to_z3(rx)))
        run.assume(z3.Length(t) == w)
        if self.exclude and self.kind == "char":
            run.assume(t != z3.StringVal(self.exclude))
        if self.kind == "char":
            run.assume(z3.StrToCode(t) <= 0x2FFFF)
        return VStr(str, t)


class _Match:
    pass


def finditer_contract(atoms):
    """CEL_ESCAPES_PAT.finditer(arg): arg must provably be the concatenation of the atoms; the matches are the atoms
    (justified by the G:tokenise obligations)."""
    def hook(run, obj, name, a, kw):
        if obj is not ev.CEL_ESCAPES_PAT or name != "finditer":
            raise se.Unsupported(f"re method {name} on symbolic text")
        arg = a[0]
        body = z3.Concat(*[m.t for m in atoms]) if len(atoms) > 1 else atoms[0].t
        run.check(arg.t == body, "finditer receives exactly the text between the delimiters")
        return VList(list, [VObj(_Match, {"group": VModel((lambda m: lambda run, *a: VStr(str, m.t))(m), "Match.group")}) for m in atoms])
    return hook


def token(kind, text):
    return VTok(lark.Token, text, {"type": VStr(str, kind), "value": VStr(str, text), "line": VInt(int, 1), "column": VInt(int, 1)})


def str_contracts(pairs=True):
    cs = []
    kinds = list(KINDS)
    combos = [(k,) for k in kinds] + ([(a, b) for a in kinds for b in kinds] if pairs else [])
    for prefix, q in STR_STYLES:
        raw = bool(prefix)
        for combo in combos:
            if raw and combo not in (("char",), ("simple", "char"), ("x", "simple")):
                continue      # raw: escapes are not interpreted; a few representative bodies
            if not raw and len(combo) == 2:
                # pairs: all 36 under the short double-quoted style; a representative subset under one long style; single atoms under every style
                if (prefix, q) == ("", '"'):
                    if combo == ("U", "U"):
                        continue      # the one costly pairing (16 symbolic hex digits): U is paired with every other kind, both orders
                elif (prefix, q) == ("", "'''"):
                    if "U" in combo or combo[0] == combo[1]:
                        continue
                else:
                    continue
            names = [f"m{i}" for i in range(len(combo))]
            args = [(n, AtomDom(k, exclude=(q if len(q) == 1 else None))) for n, k in zip(names, combo)]

            def invoke(run, S, prefix=prefix, q=q, names=names):
                atoms = [getattr(S, n) for n in names]
                text = z3.Concat(z3.StringVal(prefix + q), *[m.t for m in atoms], z3.StringVal(q))
                run.ghost["regex_method"] = finditer_contract(atoms)
                return run.call(V.VNative(ev.celstr), [token("MLSTRING_LIT" if len(q) == 3 else "STRING_LIT", text)])

            def parts(S, combo=combo, names=names, raw=raw):
                vs, oks = [], []
                for n, k in zip(names, combo):
                    t = getattr(S, n).t
                    v, ok = (t, z3.BoolVal(True)) if raw else str_value(k, t)
                    vs.append(v)
                    oks.append(ok)
                return vs, oks

            def ret(S, r, parts=parts):
                if not (isinstance(r, VStr) and r.cls is ct.StringType):
                    return False
                vs, oks = parts(S)
                return z3.And(r.t == (z3.Concat(*vs) if len(vs) > 1 else vs[0]), *oks)

            def bad(S, parts=parts):
                vs, oks = parts(S)
                return z3.Not(z3.And(*oks))

            def native(N, prefix=prefix, q=q, names=names):
                text = prefix + q + "".join(N[n] for n in names) + q
                return ev.celstr(lark.Token("STRING_LIT", text))
            cs.append(V.Contract("celpy.evaluation:celstr", args, name=f"celstr({prefix}{q}{' '.join(combo)}{q})", invoke=invoke, native=native,
                                 ret=ret, exc={ValueError: bad, OverflowError: bad}, cover=False))
    return cs


BYTES_STYLES = [("b", '"'), ("B", "'"), ("b", '"""'), ("b", "'''"), ("br", '"'), ("bR", "'"), ("Br", '"""'), ("BR", "'''")]


def bytes_contracts():
    cs = []
    kinds = [k for k in KINDS if k not in ("u", "U")]
    combos = [(k,) for k in kinds] + [(a, b) for a in kinds for b in kinds]
    for prefix, q in BYTES_STYLES:
        raw = len(prefix) == 2
        for combo in combos:
            if raw and combo not in (("char",), ("simple", "char"), ("x", "simple")):
                continue
            if not raw and len(combo) == 2 and (prefix, q) not in (("b", '"'), ("b", "'''")):
                continue
            names = [f"m{i}" for i in range(len(combo))]
            args = [(n, AtomDom(k, exclude=(q if len(q) == 1 else None))) for n, k in zip(names, combo)]

            def invoke(run, S, prefix=prefix, q=q, names=names):
                atoms = [getattr(S, n) for n in names]
                text = z3.Concat(z3.StringVal(prefix + q), *[m.t for m in atoms], z3.StringVal(q))
                run.ghost["regex_method"] = finditer_contract(atoms)
                run.ghost["utf8_fn"] = True
                return run.call(V.VNative(ev.celbytes), [token("BYTES_LIT", text)])

            def parts(S, combo=combo, names=names, raw=raw):
                if raw:
                    ts = [getattr(S, n).t for n in names]
                    return [HV_UTF8(z3.Concat(*ts) if len(ts) > 1 else ts[0])], [z3.BoolVal(True)]
                vs, oks = [], []
                for n, k in zip(names, combo):
                    v, ok = bytes_value(k, getattr(S, n).t)
                    vs.append(v)
                    oks.append(ok)
                return vs, oks

            def ret(S, r, parts=parts):
                if not (isinstance(r, VBytes) and r.cls is ct.BytesType):
                    return False
                vs, oks = parts(S)
                return z3.And(r.t == (z3.Concat(*vs) if len(vs) > 1 else vs[0]), *oks)

            def bad(S, parts=parts):
                vs, oks = parts(S)
                return z3.Not(z3.And(*oks))

            def native(N, prefix=prefix, q=q, names=names):
                text = prefix + q + "".join(N[n] for n in names) + q
                return ev.celbytes(lark.Token("BYTES_LIT", text))
            cs.append(V.Contract("celpy.evaluation:celbytes", args, name=f"celbytes({prefix}{q}{' '.join(combo)}{q})", invoke=invoke, native=native,
                                 ret=ret, exc={ValueError: bad}, cover=False))
    return cs


# ------------------------------------------------------------------ G: the real pattern tokenises at the statement's escape boundaries
def tokenisation_obligations(rep):
    func = "CEL_ESCAPES_PAT (leftmost-first alternation) vs the escape kinds of the statement"
    alts = RL.alternatives(ev.CEL_ESCAPES_PAT)
    dotall = bool(ev.CEL_ESCAPES_PAT.flags & __import__("re").DOTALL)
    alt_rx = [RL.tr(a, dotall) for a, _ in alts]
    anystar = z3.Star(RL.anychar())
    for kind, (rx, w) in KINDS.items():
        krx = RL.to_z3(rx)
        if kind == "char":
            krx = z3.Intersect(krx, RL.rng(0, RL.MAXCP))
        o = rep.add(V.Obl(f"G:tokenise[{kind}]", "G", func,
                          "where an escape of this kind starts, finditer's next match is exactly that escape: some alternative contains the kind "
                          "with the kind's width, and no earlier alternative matches a prefix of <escape><anything>"))
        o.backend = "z3-regex"
        chosen = None
        for j, ((a, (lo, hi)), arx) in enumerate(zip(alts, alt_rx)):
            st, _w = RL.included(krx, arx)
            if st == "discharged" and lo == hi == w:
                chosen = j
                break
        if chosen is None:
            o.status = "refuted"
            o.detail = f"no alternative of the pattern contains the kind {kind!r} ({rx}) with width {w}"
            o.model = {"kind": kind}
            continue
        status = "discharged"
        for i in range(chosen):
            s = z3.Solver()
            s.set("timeout", 20000)
            x = z3.String("w")
            s.add(z3.InRe(x, z3.Concat(krx, anystar)), z3.InRe(x, z3.Concat(alt_rx[i], anystar)))
            r = s.check()
            if r == z3.sat:
                status = "refuted"
                wit = se.zstr_to_py(s.model().eval(x, model_completion=True))
                o.detail = f"input: body {wit!r}: alternative #{i} of the pattern matches first"
                o.model = {"body": wit, "alternative": i}
                break
            if r != z3.unsat:
                status = "undecided"
        o.status = status
        if status == "refuted" and o.model.get("body") is not None:
            body = o.model["body"]
            first = next(ev.CEL_ESCAPES_PAT.finditer(body)).group()
            o.replay = {"replayed": True, "confirmed": len(first) != w or not __import__("re").fullmatch(rx, first),
                        "inputs": {"body": body}, "observed": f"first match {first!r}"}


# ------------------------------------------------------------------ I: no loop-carried state in the decoding loops
def _loop_carried(fn_node):
    """names stored in the first for-loop body of fn_node that may be read in the body before being (definitely) assigned"""
    loop = next(n for n in ast.walk(fn_node) if isinstance(n, ast.For))
    stored = {n.id for s in loop.body for n in ast.walk(s) if isinstance(n, ast.Name) and isinstance(n.ctx, ast.Store)}
    carried = set()

    def reads(e, defined):
        for n in ast.walk(e):
            if isinstance(n, ast.Name) and isinstance(n.ctx, ast.Load) and n.id in stored and n.id not in defined:
                carried.add(n.id)

    def block(stmts, defined):
        defined = set(defined)
        for s in stmts:
            if isinstance(s, ast.If):
                reads(s.test, defined)
                a = block(s.body, defined)
                b = block(s.orelse, defined) if s.orelse else set(defined)
                defined = a & b
            elif isinstance(s, (ast.Assign, ast.AnnAssign)):
                if s.value is not None:
                    reads(s.value, defined)
                for t in (s.targets if isinstance(s, ast.Assign) else [s.target]):
                    for n in ast.walk(t):
                        if isinstance(n, ast.Name):
                            defined.add(n.id)
            elif isinstance(s, ast.Expr):
                reads(s.value, defined)
            else:
                return None      # a statement form this analysis does not know: give up (undecided)
        return defined
    ok = block(loop.body, set())
    return carried, ok is not None


def independence_obligations(rep, sources):
    for fname in ("celstr", "celbytes"):
        fn = getattr(ev, fname)
        node, ms = sources.node_for_function(fn)
        inner = next(n for n in node.body if isinstance(n, ast.FunctionDef) and n.name == "expand")
        carried, known = _loop_carried(inner)
        o = rep.add(V.Obl(f"I:iterations-independent[{fname}.expand]", "I", f"celpy.evaluation:{fname}",
                          "the decoding loop carries no variable from one match to the next (each expansion is a function of its match alone), "
                          "so the result for a body of n atoms is the concatenation of the per-atom results"))
        o.backend = "ast-dataflow"
        if not known:
            o.status = "undecided"
            o.detail = "loop body uses a statement form outside the definite-assignment analysis"
        elif carried:
            o.status = "refuted"
            o.detail = f"loop-carried variable(s): {sorted(carried)}"
            o.model = {"carried": sorted(carried)}
        else:
            o.status = "discharged"


# ------------------------------------------------------------------ numerals: INT_LIT / UINT_LIT texts through the real constructors
class _NumStr(VStr):
    __slots__ = ("digits",)


class NumeralDom(V.Dom):
    """an arbitrary numeral  <lead><d1...dn>  with n digits of the given class (the text's length is fixed per contract)"""

    def __init__(self, lead, digits_rx, n):
        self.lead, self.rx, self.n = lead, digits_rx, n
        self.label = f"{lead}{digits_rx}{{{n}}}"

    def samples(self):
        return []

    def make(self, run, name):
        # the digits as n code points constrained arithmetically to the digit class (far easier for the solver than a regex)
        cs_ = [z3.Int(f"{name}_c{i}") for i in range(self.n)]
        for c in cs_:
            run.assume(z3.And(c >= 48, c <= 57) if self.rx == "[0-9]" else
                       z3.Or(z3.And(c >= 48, c <= 57), z3.And(c >= 65, c <= 70), z3.And(c >= 97, c <= 102)))
        units = [z3.StrFromCode(c) for c in cs_]
        d = units[0] if self.n == 1 else z3.Concat(*units)
        v = _NumStr(str, z3.Concat(z3.StringVal(self.lead), d) if self.lead else d)
        v.digits = cs_
        return v


def spelled(codes, n, base):
    dig = hexval if base == 16 else (lambda c: c - 48)
    return z3.Sum(*[dig(codes[i]) * base ** (n - 1 - i) for i in range(n)]) if n > 1 else dig(codes[0])


def numeral_contracts(tier="quick"):
    """IntType(text) / UintType(text) for every numeral the INT_LIT / UINT_LIT terminals spell with up to 20 decimal or 17 hex
    digits (leading zeros included): the value is the spelled number iff it is in range, otherwise ValueError - never a
    wrapped or truncated value.  (Evaluator.literal hands the token text, the `u` suffix sliced off, to these constructors.)"""
    cs = []
    dec_ns = list(range(1, 21))
    hex_ns = list(range(1, 18))
    for cls, lo, hi, leads in ((ct.IntType, -(2 ** 63), 2 ** 63, ("", "-")), (ct.UintType, 0, 2 ** 64, ("",))):
        for base, rx, ns, pfx in ((10, "[0-9]", dec_ns, ""), (16, HEX, hex_ns, "0x"), (16, HEX, hex_ns[:3], "0X")):
            for lead in leads:
                if cls is ct.UintType and lead:
                    continue
                for n in ns:
                    dom = NumeralDom(lead + pfx, rx, n)

                    def value(S, lead=lead, n=n, base=base):
                        v = spelled(S.text.digits, n, base)
                        return -v if lead == "-" else v

                    def invoke(run, S, cls=cls):
                        run.ghost["exact_numerals"] = True
                        return run.call(V.VNative(cls), [S.text])

                    def ret(S, r, cls=cls, lo=lo, hi=hi, value=value):
                        from pyvc.values import VInt as _VInt
                        if not (isinstance(r, _VInt) and r.cls is cls):
                            return False
                        v = value(S)
                        return z3.And(r.t == v, v >= lo, v < hi)

                    def bad(S, lo=lo, hi=hi, value=value):
                        v = value(S)
                        return z3.Or(v < lo, v >= hi)
                    cs.append(V.Contract(f"celpy.celtypes:{cls.__name__}.__new__", [("text", dom)], name=f"{cls.__name__}('{lead}{pfx}' + {n} digits)",
                                         invoke=invoke, native=(lambda cls: lambda N: cls(N["text"]))(cls), ret=ret, exc={ValueError: bad}, cover=False))
    return cs
