"""C02: outcome-class specification of the logical operators (DESIGN.md Appendix A.1) and contracts.

Operand / result descriptors: ("B", z3 Bool) a BoolType value; "E" an evaluation error (an error *value*, or -
at function level - a raised TypeError, which every caller converts); "N" any other value.
A spec returns the z3 formula the result descriptor has to satisfy, `True` where the statement leaves the cell open.
"""
import z3

import celpy.celtypes as ct
import celpy.evaluation as ev
from contracts.specs import *
from pyvc import verify as V
from pyvc.values import VInt, VObj, VList, VTuple, VStr, NONE

BOOL = V.BoolDom(ct.BoolType)
ERR = V.ObjDom(ev.CELEvalError, {"args": VTuple([])}, label="CELEvalError")
NONBOOL = [V.IntDom(ct.IntType, I64_MIN, I64_MAX1, "IntType"), V.StrDom(ct.StringType), V.NoneDom(),
           V.FnDom(lambda run, name: VList(ct.ListType, []), "ListType[]"), V.FloatDom(ct.DoubleType)]
OUTCOMES = [BOOL, ERR] + NONBOOL


def desc(v):
    """Outcome descriptor of a symbolic value."""
    if isinstance(v, VInt) and v.cls is ct.BoolType:
        return ("B", v.t != 0)
    if isinstance(v, VObj) and issubclass(v.cls, ev.CELEvalError):
        return "E"
    return "N"


def r_is_bool(R, cond):
    return False if not isinstance(R, tuple) else (R[1] == cond)


def r_is_err(R):
    return R == "E"


def ite(c, a, b):
    a = z3.BoolVal(a) if isinstance(a, bool) else a
    b = z3.BoolVal(b) if isinstance(b, bool) else b
    return z3.If(c, a, b)


def and_spec(X, Y, R):
    """a && b: false if either is false, true if both true, error otherwise; (N,N) error; open where A.1 says so."""
    bx, by = isinstance(X, tuple), isinstance(Y, tuple)
    if bx and by:
        return r_is_bool(R, z3.And(X[1], Y[1]))
    if bx:   # Y is E or N
        other = r_is_err(R) if Y == "E" else True
        return ite(X[1], other, r_is_bool(R, False))
    if by:
        other = r_is_err(R) if X == "E" else True
        return ite(Y[1], other, r_is_bool(R, False))
    if X == "E" and Y == "E":
        return r_is_err(R)
    if X == "N" and Y == "N":
        return r_is_err(R)
    return True


def or_spec(X, Y, R):
    bx, by = isinstance(X, tuple), isinstance(Y, tuple)
    if bx and by:
        return r_is_bool(R, z3.Or(X[1], Y[1]))
    if bx:
        other = r_is_err(R) if Y == "E" else True
        return ite(X[1], r_is_bool(R, True), other)
    if by:
        other = r_is_err(R) if X == "E" else True
        return ite(Y[1], r_is_bool(R, True), other)
    if X == "E" and Y == "E":
        return r_is_err(R)
    if X == "N" and Y == "N":
        return r_is_err(R)
    return True


def chain_spec(kind, Xs, R):
    """x1 OP x2 OP ... (left-nested, as the grammar builds it) - what the binary table implies for the whole chain whatever
    the intermediate outcomes are: an absorbing operand anywhere (false for &&, true for ||) decides; all booleans give the
    conjunction / disjunction; without an absorbing operand, booleans and errors only with at least one error give an error."""
    absorbing = (lambda b: z3.Not(b)) if kind == "and" else (lambda b: b)
    bools = [x for x in Xs if isinstance(x, tuple)]
    any_abs = z3.Or(*[absorbing(b[1]) for b in bools]) if bools else z3.BoolVal(False)
    if len(bools) == len(Xs):
        return r_is_bool(R, (z3.And if kind == "and" else z3.Or)(*[b[1] for b in bools]))
    rest = True
    if all(isinstance(x, tuple) or x == "E" for x in Xs):
        rest = r_is_err(R)
    return ite(any_abs, r_is_bool(R, kind == "or"), rest)


def not_spec(X, R):
    if isinstance(X, tuple):
        return r_is_bool(R, z3.Not(X[1]))
    return r_is_err(R)      # !E = E ; !N = E


def fn_contracts():
    cs = []
    for name, spec in (("logical_and", and_spec), ("logical_or", or_spec)):
        cs.append(V.Contract(
            f"celpy.celtypes:{name}", [("x", OUTCOMES), ("y", OUTCOMES)],
            ret=(lambda spec: lambda S, r: spec(desc(S.x), desc(S.y), desc(r)))(spec),
            exc={TypeError: (lambda spec: lambda S: spec(desc(S.x), desc(S.y), "E"))(spec)},
            cover=False))
        # which object comes back matters as well: an absorbed error is not returned, an unabsorbed one is the operand
    cs.append(V.Contract("celpy.celtypes:logical_not", [("x", OUTCOMES)],
                         ret=lambda S, r: not_spec(desc(S.x), desc(r)),
                         exc={TypeError: lambda S: not_spec(desc(S.x), "E")}, cover=False))
    cs.append(V.Contract(
        "celpy.celtypes:logical_condition", [("e", OUTCOMES), ("x", OUTCOMES), ("y", OUTCOMES)],
        # a boolean condition selects exactly the object of the chosen branch; anything else is an error
        ret=lambda S, r: isinstance(desc(S.e), tuple) and ite(desc(S.e)[1], r is S.x, r is S.y),
        exc={TypeError: lambda S: not isinstance(desc(S.e), tuple)}, cover=False))
    return cs


def spec_lemmas(rep):
    """Commutativity of the specification tables, as lemmas over all descriptor pairs (finite)."""
    b1, b2, rb = z3.Bools("x_b y_b r_b")
    ds = {"B": None, "E": "E", "N": "N"}
    for nm, spec in (("and", and_spec), ("or", or_spec)):
        n = 0
        ok = True
        for kx in ds:
            for ky in ds:
                X = ("B", b1) if kx == "B" else kx
                Y = ("B", b2) if ky == "B" else ky
                for R in (("B", rb), "E", "N"):
                    f1, f2 = spec(X, Y, R), spec(Y, X, R)
                    f1 = z3.BoolVal(f1) if isinstance(f1, bool) else f1
                    f2 = z3.BoolVal(f2) if isinstance(f2, bool) else f2
                    V.lemma(rep, f"lemma:{nm}-spec-commutes[{kx},{ky},{R if isinstance(R, str) else 'B'}]", "spec",
                            f"{nm}_spec(x,y,r) == {nm}_spec(y,x,r)", [], f1 == f2)
