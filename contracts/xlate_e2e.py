"""C18 bounded stand-in (labelled bounded, never counted as proved): concrete filter trees are translated by the real
logical_connector, the text is parsed by the library's parser and evaluated by the library's evaluator under every
truth assignment, and compared with Custodian's combinators (list/and = all, or = any, not = not all).
Primitive clauses are replaced by clause texts of every operator class that denote a fresh boolean variable."""
import itertools
import random

import celpy
import celpy.celtypes as ct
import xlate.c7n_to_cel as X
from pyvc import verify as V

CLAUSE_SHAPES = ["{v}", "! (! {v})", "{v} == true", "{v} && true", "{v} || false", "{v} ? true : false",
                 "false || {v} && true", "{v} ? true : false || false"]


def trees(depth, nvars):
    """All trees up to `depth` connective levels with 1..2 children; leaves are ('p', var, shape)."""
    leaves = [("p", v, s) for v in range(nvars) for s in range(len(CLAUSE_SHAPES))]
    if depth == 0:
        yield from leaves
        return
    yield from leaves
    subs = list(trees(depth - 1, nvars))
    for kind in ("not", "or", "and", "list"):
        for a in subs:
            yield (kind, [a])
        for a, b in itertools.product(subs, repeat=2):
            yield (kind, [a, b])


def to_filter(t):
    if t[0] == "p":
        return {"type": "value", "_var": t[1], "_shape": t[2]}
    if t[0] == "list":
        return [to_filter(c) for c in t[1]]
    return {t[0]: [to_filter(c) for c in t[1]]}


def sem(t, env):
    if t[0] == "p":
        return env[t[1]]
    vals = [sem(c, env) for c in t[1]]
    if t[0] in ("and", "list"):
        return all(vals)
    if t[0] == "or":
        return any(vals)
    return not all(vals)


def bounded(rep, tier, seed):
    rng = random.Random(seed)
    nvars = 3
    pool = list(trees(2, nvars)) if tier == "thorough" else None
    if pool is None:
        # quick: depth <= 2 but sample the product
        d1 = list(trees(1, nvars))
        pool = list(d1)
        for kind in ("not", "or", "and", "list"):
            for _ in range(400):
                pool.append((kind, [rng.choice(d1) for _ in range(rng.choice((1, 2, 2, 3)))]))
    limit = 40000 if tier == "thorough" else 2500
    if len(pool) > limit:
        pool = rng.sample(pool, limit)
    orig = X.C7N_Rewriter.__dict__["primitive"]

    def fake_primitive(resource, f):
        return CLAUSE_SHAPES[f["_shape"]].format(v=f"p{f['_var']}")
    X.C7N_Rewriter.primitive = staticmethod(fake_primitive)
    celpy.CELParser.CEL_PARSER = None
    env = celpy.Environment()
    n = 0
    failures = []
    distinct = set()
    try:
        for t in pool:
            # the top-level filter document is a list
            top = t if t[0] == "list" else ("list", [t])
            text = X.C7N_Rewriter.logical_connector("resource", to_filter(top))
            distinct.add(text)
            try:
                prog = env.program(env.compile(text))
            except Exception as ex:
                failures.append({"tree": repr(top), "text": text, "observed": f"does not parse: {ex!r}"[:300]})
                continue
            for bits in itertools.product((False, True), repeat=nvars):
                n += 1
                want = sem(top, bits)
                try:
                    got = prog.evaluate({f"p{i}": ct.BoolType(b) for i, b in enumerate(bits)})
                    ok = isinstance(got, ct.BoolType) and bool(got) == want
                except Exception as ex:
                    got, ok = repr(ex)[:100], False
                if not ok:
                    failures.append({"tree": repr(top), "text": text, "assignment": bits, "observed": repr(got), "expected": want})
                    break
            if len(failures) >= 3:
                break
    finally:
        X.C7N_Rewriter.primitive = orig
        celpy.CELParser.CEL_PARSER = None
    rep.bounded.append({"function": "C7N_Rewriter.logical_connector end-to-end", "bound": f"trees of depth <= 2 (sampled {len(pool)}) x all assignments of {nvars} clauses x 8 clause classes",
                        "cases": n, "distinct_nontrivial": len(distinct), "failures": len(failures)})
    if failures:
        o = rep.add(V.Obl("logical_connector#bounded-e2e", "B", "C7N_Rewriter.logical_connector",
                          "bounded stand-in: translated text evaluated by the library equals the Custodian combinators"))
        o.status, o.backend = "refuted", "cpython"
        o.detail = "failing input: " + repr(failures[0])[:600]
        o.replay = {"replayed": True, "confirmed": True, "inputs": failures[0], "more": failures[1:]}
