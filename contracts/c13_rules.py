def contracts():
    return []
