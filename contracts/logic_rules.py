"""C02 at the level of the Evaluator rule methods and of the transpiled templates."""
import z3

import celpy.celtypes as ct
import celpy.evaluation as ev
from contracts.specs import *
from contracts.logic import *
from contracts.evaluator_rules import rule_contract, STUB, is_error
from contracts import templates as T
from pyvc import verify as V
from pyvc.values import VInt, VObj, VModel


def visited_labels(S):
    return [t.label for t in S._run.ghost.get("visited", [])]


def rule_contracts():
    cs = []
    cs.append(rule_contract("conditionalor", ("conditionalor", [STUB("x"), STUB("y")]), [("x", OUTCOMES), ("y", OUTCOMES)],
                            "Evaluator.conditionalor(x || y)", lambda S, r: or_spec(desc(S.x), desc(S.y), desc(r)), cover=False))
    cs.append(rule_contract("conditionaland", ("conditionaland", [STUB("x"), STUB("y")]), [("x", OUTCOMES), ("y", OUTCOMES)],
                            "Evaluator.conditionaland(x && y)", lambda S, r: and_spec(desc(S.x), desc(S.y), desc(r)), cover=False))
    # chains: the grammar nests x && y && z to the left; a deciding operand anywhere decides, whatever stands before it
    for rule, kind in (("conditionaland", "and"), ("conditionalor", "or")):
        cs.append(rule_contract(rule, (rule, [(rule, [STUB("x"), STUB("y")]), STUB("z")]), [("x", OUTCOMES), ("y", OUTCOMES), ("z", OUTCOMES)],
                                f"Evaluator.{rule}(x {'&&' if kind == 'and' else '||'} y {'&&' if kind == 'and' else '||'} z)",
                                (lambda kind: lambda S, r: chain_spec(kind, [desc(S.x), desc(S.y), desc(S.z)], desc(r)))(kind), cover=False, native_ok=False))
    cs.append(rule_contract("unary", ("unary", [("unary_not", []), STUB("x")]), [("x", OUTCOMES)],
                            "Evaluator.unary(!x)", lambda S, r: not_spec(desc(S.x), desc(r)), cover=False))

    def cond_post(S, r):
        c = desc(S.c)
        vis = visited_labels(S)
        if not isinstance(c, tuple):
            return r_is_err(desc(r))
        # exactly the selected branch is evaluated, and its outcome (the very object) is the result
        chose_left = r is S.l and "stub:r" not in vis and "stub:l" in vis
        chose_right = r is S.r and "stub:l" not in vis and "stub:r" in vis
        return ite(c[1], chose_left, chose_right)
    cs.append(rule_contract("expr", ("expr", [STUB("c"), STUB("l"), STUB("r")]),
                            [("c", OUTCOMES), ("l", OUTCOMES), ("r", OUTCOMES)],
                            "Evaluator.expr(c ? l : r)", cond_post, cover=False))
    # single-child forms pass the child's outcome through unchanged
    for rule in ("expr", "conditionalor", "conditionaland", "relation", "addition", "multiplication", "unary", "member"):
        cs.append(rule_contract(rule, (rule, [STUB("x")]), [("x", OUTCOMES)], f"Evaluator.{rule}(single child)",
                                lambda S, r: r is S.x, cover=False))
    cs += T.c02_template_contracts()
    from contracts import macros
    cs += macros.interpreter_contracts() + macros.compiled_contracts()
    return cs


def extra(rep, tier):
    from contracts import macros
    macros.summary_lemmas(rep)
