"""Contracts on Evaluator rule methods (stub; filled in below)."""


def c01_rule_contracts():
    return []
