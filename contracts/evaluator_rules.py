"""Contracts on Evaluator rule methods.

A rule method is verified on a *mock node*: a lark.Tree whose children are stub sub-trees carrying an arbitrary
(symbolic) Result -- the induction hypothesis "visiting a child returns a Result and raises nothing".  lark's own
Interpreter / Tree source is executed symbolically too (not modelled by hand); only the visit of a stub child is
intercepted.  The same shape is rebuilt natively (real lark.Tree, real Evaluator subclass with a `stub` rule) for
the CPython cross-check and for counterexample replay.
"""
import lark
import lark.tree
import lark.visitors
import z3

import celpy.celtypes as ct
import celpy.evaluation as ev
from contracts.specs import *
from pyvc import verify as V
from pyvc import symexec as se
from pyvc.values import VInt, VFloat, VStr, VTok, VObj, VList, VDict, VNative, VTuple, NONE, RNE


# ------------------------------------------------------------------ shapes
class STUB:
    def __init__(self, arg):
        self.arg = arg


class TOK:
    def __init__(self, type_, value):
        self.type, self.value = type_, value


def sym_meta(run, name):
    return VObj(lark.tree.Meta, {"line": VInt(int, run.fresh_int(name + ".line")),
                                 "column": VInt(int, run.fresh_int(name + ".col")), "empty": se.lift(False)})


def sym_tree(run, shape, S, path="t"):
    if isinstance(shape, tuple) is False and not isinstance(shape, (STUB, TOK)) and hasattr(shape, "type"):
        shape = TOK(shape.type, shape.value)      # TOK objects of sibling modules
    if isinstance(shape, STUB):
        r = getattr(S, shape.arg)
        return VObj(lark.Tree, {"data": VStr(str, "stub"), "children": VList(list, [r]),
                                "_meta": sym_meta(run, path), "$result": r}, label=f"stub:{shape.arg}")
    if isinstance(shape, TOK):
        val = getattr(S, shape.value[1:]) if shape.value.startswith("$") else VStr(str, shape.value)
        return VTok(lark.Token, val.t, {"type": VStr(str, shape.type), "value": VStr(str, val.t),
                                        "line": VInt(int, 1), "column": VInt(int, 1)})
    data, children = shape
    return VObj(lark.Tree, {"data": VStr(str, data),
                            "children": VList(list, [sym_tree(run, c, S, f"{path}.{i}") for i, c in enumerate(children)]),
                            "_meta": sym_meta(run, path)}, label=data)


def nat_meta():
    m = lark.tree.Meta()
    m.line, m.column, m.empty = 1, 1, False
    return m


def nat_tree(shape, N):
    if isinstance(shape, STUB):
        return lark.Tree("stub", [N[shape.arg]], nat_meta())
    if isinstance(shape, TOK):
        v = N[shape.value[1:]] if shape.value.startswith("$") else shape.value
        return lark.Token(shape.type, v, line=1, column=1)
    data, children = shape
    return lark.Tree(data, [nat_tree(c, N) for c in children], nat_meta())


class StubEvaluator(ev.Evaluator):
    """Real Evaluator plus one rule for stub children (returns the value stored in the stub)."""

    def stub(self, tree):
        return tree.children[0]


def sym_activation(run, functions=None):
    fdict = functions if functions is not None else ev.base_functions
    import collections
    base = VDict(dict, [[VStr(str, k), se.lift(v)] for k, v in ev.base_functions.items()])
    maps = [base]
    if functions is not None:
        maps = [VDict(dict, [[VStr(str, k), se.lift(v)] for k, v in functions.items()]), base]
    fmap = VObj(collections.ChainMap, {"maps": VList(list, maps)}, label="functions")
    return VObj(ev.Activation, {"functions": fmap, "package": NONE,
                                "identifiers": VDict(ev.NameContainer, [], {"parent": NONE})}, label="activation")


def sym_evaluator(run, functions=None):
    act = sym_activation(run, functions)
    return VObj(ev.Evaluator, {"activation": act, "base_activation": act, "level": VInt(int, 0),
                               "ast": NONE}, label="evaluator")


def _visit_tree_override(run, self, tree):
    attrs = getattr(tree, "attrs", None)
    if attrs is not None and "$result" in attrs:
        run.ghost.setdefault("visited", []).append(tree)
        r = attrs["$result"]
        if callable(r) and not isinstance(r, se.SV):
            run.ghost["visiting_evaluator"] = self
            return r(run)           # a fresh arbitrary outcome at every visit (macro bodies)
        return r
    return run.call_ast(run.engine.vfunc_of(lark.visitors.Interpreter._visit_tree), [self, tree], {})


def install(engine):
    engine.overrides[lark.visitors.Interpreter._visit_tree] = _visit_tree_override


def rule_contract(method, shape, args, name, ret, exc=None, functions=None, native_ok=True, **kw):
    """Contract for Evaluator.<method> applied to a mock node of the given shape.
    native_ok=False: no CPython cross-check (nested mock nodes: an error value created for an inner mock node carries that
    node, and repr() of it - used in logical_and's TypeError text - dumps the node, which a stub child cannot be)."""
    def invoke(run, S):
        install(run.engine)
        S.self_ = sym_evaluator(run, functions)
        S.tree_ = sym_tree(run, shape, S)
        return run.call(run.getattr(S.self_, method), [S.tree_])

    def native(N):
        t = nat_tree(shape, N)
        e = StubEvaluator(t, ev.Activation(functions=functions))
        return getattr(e, method)(t)

    return V.Contract(f"celpy.evaluation:Evaluator.{method}", args, name=name, invoke=invoke, native=native if native_ok else False,
                      ret=ret, exc=exc or {}, **kw)


def is_error(r):
    return isinstance(r, VObj) and issubclass(r.cls, ev.CELEvalError)


# ------------------------------------------------------------------ C01: arithmetic rules
I64 = V.IntDom(ct.IntType, I64_MIN, I64_MAX1, "int64")
U64 = V.IntDom(ct.UintType, 0, U64_MAX1, "uint64")
DBL = V.FloatDom(ct.DoubleType)
KW = z3.Int("k_witness")


def _int_outcome(cls, inr, exact):
    """exact result wrapped in cls iff it fits, otherwise an error value; nothing raised."""
    def ret(S, r):
        e = exact(S.left.t, S.right.t)
        if is_error(r):
            return z3.Not(inr(e))
        return z3.And(inr(e), is_int(r, cls, e))
    return ret


def _div_outcome(cls, inr):
    def ret(S, r):
        a, b = S.left.t, S.right.t
        if is_error(r):
            return z3.Or(b == 0, z3.And(a == I64_MIN, b == -1)) if cls is ct.IntType else (b == 0)
        return (isinstance(r, VInt) and r.cls is cls) and z3.And(inr(r.t), tdiv_rel(a, b, r.t))
    return ret


def _mod_outcome(cls, inr):
    def ret(S, r):
        a, b = S.left.t, S.right.t
        if is_error(r):
            return b == 0
        return (isinstance(r, VInt) and r.cls is cls) and z3.And(inr(r.t), z3.Exists([KW], tmod_rel(a, b, r.t, KW)))
    return ret


def _dbl_outcome(fn):
    def ret(S, r):
        e = fn(RNE, S.left.t, S.right.t)
        return isinstance(r, VFloat) and z3.Or(z3.And(z3.fpIsNaN(r.t), z3.fpIsNaN(e)), r.t == e)
    return ret


def c01_rule_contracts():
    cs = []
    for cls, dom, inr, tag in ((ct.IntType, I64, in_i64, "int"), (ct.UintType, U64, in_u64, "uint")):
        a2 = [("left", dom), ("right", dom)]
        for op, fn in (("addition_add", lambda a, b: a + b), ("addition_sub", lambda a, b: a - b)):
            cs.append(rule_contract("addition", ("addition", [(op, [STUB("left")]), STUB("right")]), a2,
                                    f"Evaluator.addition[{op}]({tag},{tag})", _int_outcome(cls, inr, fn)))
        cs.append(rule_contract("multiplication", ("multiplication", [("multiplication_mul", [STUB("left")]), STUB("right")]),
                                a2, f"Evaluator.multiplication[multiplication_mul]({tag},{tag})",
                                _int_outcome(cls, inr, lambda a, b: a * b)))
        cs.append(rule_contract("multiplication", ("multiplication", [("multiplication_div", [STUB("left")]), STUB("right")]),
                                a2, f"Evaluator.multiplication[multiplication_div]({tag},{tag})", _div_outcome(cls, inr)))
        cs.append(rule_contract("multiplication", ("multiplication", [("multiplication_mod", [STUB("left")]), STUB("right")]),
                                a2, f"Evaluator.multiplication[multiplication_mod]({tag},{tag})", _mod_outcome(cls, inr)))
    cs.append(rule_contract("unary", ("unary", [("unary_neg", []), STUB("right")]), [("right", I64)],
                            "Evaluator.unary[unary_neg](int)",
                            lambda S, r: (S.right.t == I64_MIN) if is_error(r) else
                            z3.And(S.right.t != I64_MIN, is_int(r, ct.IntType, -S.right.t))))
    cs.append(rule_contract("unary", ("unary", [("unary_neg", []), STUB("right")]), [("right", U64)],
                            "Evaluator.unary[unary_neg](uint)", lambda S, r: is_error(r)))
    cs.append(rule_contract("unary", ("unary", [("unary_neg", []), STUB("right")]), [("right", DBL)],
                            "Evaluator.unary[unary_neg](double)",
                            lambda S, r: isinstance(r, VFloat) and z3.Or(
                                z3.And(z3.fpIsNaN(r.t), z3.fpIsNaN(S.right.t)), r.t == z3.fpNeg(S.right.t))))
    d2 = [("left", DBL), ("right", DBL)]
    for meth, op, fn in (("addition", "addition_add", z3.fpAdd), ("addition", "addition_sub", z3.fpSub),
                         ("multiplication", "multiplication_mul", z3.fpMul), ("multiplication", "multiplication_div", z3.fpDiv)):
        cs.append(rule_contract(meth, (meth, [(op, [STUB("left")]), STUB("right")]), d2,
                                f"Evaluator.{meth}[{op}](double,double)", _dbl_outcome(fn)))
    cs.append(rule_contract("multiplication", ("multiplication", [("multiplication_mod", [STUB("left")]), STUB("right")]), d2,
                            "Evaluator.multiplication[multiplication_mod](double,double)", lambda S, r: is_error(r)))
    return cs
