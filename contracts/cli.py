"""C20: control flow of the command-line front end under the runner contract.

Environment / Runner are abstracted by the contract established in C04/C05: `compile` returns a tree or raises
CELParseError(line, column); `evaluate(activation)` returns a value or raises CELEvalError, as a function of the
expression and the bindings it is given.  json.loads either returns a document or raises JSONDecodeError.
stdin is a sequence of lines of unknown length (loop invariant: summary == max of the per-document statuses so far).
"""
import argparse
import json
import sys

import z3

import celpy
import celpy.__main__ as M
import celpy.celtypes as ct
import celpy.evaluation as ev
from celpy.celparser import CELParseError
from contracts.specs import *
from pyvc import verify as V
from pyvc import symexec as se
from pyvc.values import VInt, VStr, VObj, VModel, VNative, VDict, VList, VTuple, VOpaque, VSymIter, NONE


class Mock:
    """class of mock collaborator objects (environment, program, parser)"""


RESULT_DOMS = [V.BoolDom(ct.BoolType), V.BoolDom(bool), V.IntDom(ct.IntType, I64_MIN, I64_MAX1, "IntType"),
               V.StrDom(ct.StringType), V.NoneDom(), V.FnDom(lambda run, n: VList(ct.ListType, []), "ListType")]


def install(run, S, parse_ok=True):
    g = run.ghost
    g["displayed"] = []       # values printed on stdout (through json.dumps / format)
    g["stderr"] = []
    g["evaluations"] = []     # (activation snapshot, outcome)
    g["docs"] = []

    def evaluate(run, activation):
        snap = [(se.conc(k), v) for k, v in activation.pairs] if isinstance(activation, VDict) else None
        k = run.choose(len(RESULT_DOMS) + 1, "evaluate-outcome")
        if k == len(RESULT_DOMS):
            err = VObj(ev.CELEvalError, {"args": VTuple([VStr(str, "boom")]), "line": VInt(int, 1), "column": VInt(int, 1)})
            g["evaluations"].append((snap, ("error", err)))
            raise se.PyRaise(err)
        v = RESULT_DOMS[k].make(run, f"result{run.counter}")
        g["evaluations"].append((snap, ("value", v)))
        return v
    prgm = VObj(Mock, {"evaluate": VModel(evaluate, "Runner.evaluate")}, label="program")

    def compile_(run, text):
        if parse_ok:
            return VObj(Mock, {}, label="tree")
        raise se.PyRaise(VObj(CELParseError, {"args": VTuple([VStr(str, "syntax error")]), "line": VInt(int, run.fresh_int("line")),
                                               "column": VInt(int, run.fresh_int("col"))}))
    parser = VObj(Mock, {"error_text": VModel(lambda run, msg, line=None, column=None:
                                               _errtext(run, line, column), "CELParser.error_text")})
    env = VObj(Mock, {"compile": VModel(compile_, "Environment.compile"),
                      "program": VModel(lambda run, expr, functions=None: prgm, "Environment.program"),
                      "cel_parser": parser}, label="environment")
    S.env_, S.prgm_ = env, prgm
    run.engine.overrides[M.Environment] = lambda run, **kw: env

    def loads(run, document, cls=None):
        if run.branch(run.fresh("doc_is_json", z3.BoolSort())):
            # any JSON document, including the document `null`
            d = NONE if run.branch(run.fresh("doc_is_null", z3.BoolSort())) else VOpaque("decoded-document")
            g["docs"].append((document, d))
            return d
        g["docs"].append((document, None))
        raise se.PyRaise(VObj(json.decoder.JSONDecodeError, {"args": VTuple([VStr(str, "Expecting value")])}))
    run.engine.overrides[json.loads] = loads

    def dumps(run, v, cls=None):
        out = VStr(str, run.fresh("hv_json", z3.StringSort()))
        g.setdefault("json_of", []).append((out, v))
        return out
    run.engine.overrides[json.dumps] = dumps

    def print_(run, *a, file=None, **kw):
        if file is None:
            # what was printed: the JSON text of some value
            src = None
            for out, v in g.get("json_of", []):
                if a and out is a[0]:
                    src = v
            g["displayed"].append(src if src is not None else ("raw", a))
        else:
            g["stderr"].append(a)
        return NONE
    import builtins
    run.engine.overrides[builtins.print] = print_
    g["stdin_iter"] = VSymIter(lambda run: VStr(str, run.fresh("line", z3.StringSort())), "stdin")


def _errtext(run, line, column):
    t = VStr(str, run.fresh("hv_errtext", z3.StringSort()))
    run.ghost.setdefault("errtext", []).append((t, line, column))
    return t


def options(run, **kw):
    base = dict(verbose=VInt(int, 0), interactive=se.lift(False), format=NONE, expr=VStr(str, "expr-text"), arg=NONE,
                null_input=se.lift(False), slurp=se.lift(False), boolean=se.lift(False), package=VStr(str, "jq"), document=NONE)
    base.update(kw)
    return VObj(argparse.Namespace, base, label="options")


def status_spec(outcome, boolean):
    """per-document status (A.4): 3 not JSON; evaluation error -> 0; with -b: 0 true / 1 false; else 0"""
    kind, v = outcome
    if kind == "notjson":
        return z3.IntVal(3)
    if kind == "error":
        return z3.IntVal(0)
    if boolean and isinstance(v, VInt) and v.cls in (ct.BoolType, bool):
        return z3.If(v.t != 0, 0, 1)
    return z3.IntVal(0)


# ------------------------------------------------------------------ process_json_doc
def pjd_contracts():
    cs = []
    for boolean in (False, True):
        def invoke(run, S, boolean=boolean):
            install(run, S)
            S.activation = VDict(dict, [[VStr(str, "argname"), VInt(ct.IntType, 7)]])
            S.arg0 = S.activation.pairs[0][1]
            shown = []
            S.shown = shown
            display = VModel(lambda run, v: (shown.append(v), NONE)[1], "display")
            S.document = VStr(str, z3.String("document"))
            return run.call(VNative(M.process_json_doc),
                            [display, S.prgm_, S.activation, VStr(str, "jq"), S.document, se.lift(boolean)])

        def post(S, r, boolean=boolean):
            g = S._run.ghost
            docs, evs = g["docs"], g["evaluations"]
            if not (isinstance(r, VInt) and len(docs) == 1):
                return False
            document, decoded = docs[0]
            if document is not S.document:
                return False
            if decoded is None:
                return z3.And(r.t == 3, z3.BoolVal(not S.shown and not evs))
            S_missing = object()
            if len(evs) != 1:
                return False
            snap, outcome = evs[0]
            # the program saw exactly: the caller's bindings plus this document under the variable
            frame_ok = snap is not None and dict(snap).get("jq", S_missing) is decoded and dict(snap).get("argname") is S.arg0 and len(snap) == 2
            if outcome[0] == "error":
                shown_ok = len(S.shown) == 1 and S.shown[0] is NONE
            else:
                shown_ok = len(S.shown) == 1 and S.shown[0] is outcome[1]
            return z3.And(z3.BoolVal(frame_ok and shown_ok), r.t == status_spec(outcome, boolean))
        cs.append(V.Contract("celpy.__main__:process_json_doc", [], name=f"process_json_doc(boolean_to_status={boolean})",
                             invoke=invoke, ret=post, exc={}, cover=False, native=False))
    return cs


# ------------------------------------------------------------------ main
class MaxInv:
    """NDJSON loop: `summary` is the maximum of the per-document statuses so far (ghost g['max_so_far'])."""

    def __init__(self, boolean):
        self.boolean = boolean

    def holds(self, run, env):
        s = run.lookup("summary", env)
        g = run.ghost
        cur = g.setdefault("max_so_far", z3.IntVal(0))
        return z3.And(z3.BoolVal(isinstance(s, VInt)), s.t == cur) if isinstance(s, VInt) else False

    def havoc(self, run, env):
        m = run.fresh_int("maxstatus")
        run.assume(z3.Or(m == 0, m == 1, m == 3))
        run.ghost["max_so_far"] = m
        env.vars["summary"] = VInt(int, m)
        # forget the previous iterations' logs: the k-th step may only depend on the k-th document
        run.ghost["docs"].clear()
        run.ghost["evaluations"].clear()
        run.ghost["displayed"].clear()
        run.ghost["pre_iteration"] = True
        # heap state the body modifies: the shared activation may hold any earlier document under the variable
        act = run.lookup("activation", env)
        act.pairs[:] = [p for p in act.pairs if se.conc(p[0]) != "jq"]
        if run.branch(run.fresh("has_previous_doc", z3.BoolSort())):
            act.pairs.append([VStr(str, "jq"), VOpaque("previous-document")])

    def step(self, run, env):
        run.ghost["pre_iteration"] = False
        run.ghost["iter_start_max"] = run.ghost["max_so_far"]

    def done(self, run, env):
        run.ghost["final_max"] = run.ghost["max_so_far"]


def _iteration_outcome(g):
    docs, evs = g["docs"], g["evaluations"]
    if len(docs) != 1:
        return None
    if docs[0][1] is None:
        return ("notjson", None)
    if len(evs) != 1:
        return None
    return evs[0][1]


def main_contracts():
    cs = []
    # --- -n: evaluate once, print JSON, status 0 ; with -b: 0 / 1 / 2
    for boolean in (False, True):
        def invoke(run, S, boolean=boolean):
            install(run, S)
            run.engine.overrides[M.get_options] = lambda run, argv=None: options(run, null_input=se.lift(True), boolean=se.lift(boolean))
            return run.call(VNative(M.main), [NONE])

        def post(S, r, boolean=boolean):
            g = S._run.ghost
            evs = g["evaluations"]
            if not (isinstance(r, VInt) and len(evs) == 1):
                return False
            snap, (kind, v) = evs[0]
            if kind == "error":
                return z3.And(r.t == 2, z3.BoolVal(not g["displayed"] and len(g["stderr"]) == 1))
            if boolean:
                if isinstance(v, VInt) and v.cls in (ct.BoolType, bool):
                    return r.t == z3.If(v.t != 0, 0, 1)
                return r.t == 2
            return z3.And(r.t == 0, z3.BoolVal(len(g["displayed"]) == 1 and g["displayed"][0] is v))
        cs.append(V.Contract("celpy.__main__:main", [], name=f"main(-n{' -b' if boolean else ''})", invoke=invoke, ret=post,
                             exc={}, cover=False, native=False))

    # --- syntax error: status 1, message built from line/column
    def invoke_pe(run, S):
        install(run, S, parse_ok=False)
        run.engine.overrides[M.get_options] = lambda run, argv=None: options(run, null_input=se.lift(True))
        return run.call(VNative(M.main), [NONE])

    def post_pe(S, r):
        g = S._run.ghost
        located = len(g.get("errtext", [])) == 1 and all(isinstance(x, VInt) for x in g["errtext"][0][1:])
        printed = len(g["stderr"]) == 1 and g["stderr"][0] and g["stderr"][0][0] is g["errtext"][0][0] if located else False
        return z3.And(z3.BoolVal(isinstance(r, VInt) and located and bool(printed) and not g["evaluations"] and not g["displayed"]), r.t == 1)
    cs.append(V.Contract("celpy.__main__:main", [], name="main(syntax error)", invoke=invoke_pe, ret=post_pe, exc={}, cover=False, native=False))

    # --- NDJSON: loop invariant
    for boolean in (False, True):
        def invoke(run, S, boolean=boolean):
            install(run, S)
            run.ghost["loop_inv"] = {None: MaxInv(boolean)}
            run.engine.overrides[M.get_options] = lambda run, argv=None: options(run, boolean=se.lift(boolean),
                                                                                  arg=VList(list, [VTuple([VStr(str, "argname"), VNative(ct.IntType), VInt(ct.IntType, 7)])]))
            orig_pjd = M.process_json_doc

            def pjd(run, *a):
                r = run.call_ast(run.engine.vfunc_of(orig_pjd), list(a), {})
                # ghost bookkeeping at the end of the document's processing: specification of this step
                g = run.ghost
                out = _iteration_outcome(g)
                if out is None:
                    raise se.Unsupported("iteration did not process exactly one document")
                s = status_spec(out, boolean)
                run.check(r.t == s, "per-document status follows the specification (3 not JSON / 0 / 1 only with -b and false)")
                # output k depends only on document k: exactly one line, the value of evaluating with this document
                if out[0] == "notjson":
                    shown_ok = not g["displayed"]
                elif out[0] == "error":
                    shown_ok = len(g["displayed"]) == 1 and g["displayed"][0] is NONE
                else:
                    shown_ok = len(g["displayed"]) == 1 and g["displayed"][0] is out[1]
                snap_ok = True
                if out[0] != "notjson":
                    snap = dict(g["evaluations"][0][0])
                    snap_ok = snap.get("jq", object()) is g["docs"][0][1] and set(snap) == {"jq", "argname"}
                run.check(z3.BoolVal(bool(shown_ok and snap_ok)),
                          "the k-th output is the evaluation against the k-th document and the --arg bindings only")
                m0 = g["iter_start_max"]
                g["max_so_far"] = z3.If(s > m0, s, m0)
                return r
            run.engine.overrides[orig_pjd] = pjd
            return run.call(VNative(M.main), [NONE])

        def post(S, r):
            g = S._run.ghost
            return z3.And(z3.BoolVal(isinstance(r, VInt) and "final_max" in g), r.t == g.get("final_max", z3.IntVal(-1)))
        cs.append(V.Contract("celpy.__main__:main", [], name=f"main(NDJSON{' -b' if boolean else ''}, stream of unknown length)",
                             invoke=invoke, ret=post, exc={}, cover=False, native=False))
    return cs
