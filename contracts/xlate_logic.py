"""C18: logical_connector under ghost precedence typing.

Every emitted text is abstracted to VText(prec, den): `prec` the loosest top-level operator class of the text
(ATOM < UNARY < REL < AND < OR < TERNARY) and `den` its boolean denotation over the primitive clauses.
Composition rules (validated against the real CEL parser in `composition_table`):
  " && ".join(ts): one text -> unchanged; else (AND, /\\ den) REQUIRES every prec <= AND
  " || ".join(ts): one text -> unchanged; else (OR,  \\/ den) REQUIRES every prec <= OR
  "(" t ")" -> (ATOM, den);  "! (" t ")" -> (UNARY, not den)
A primitive clause translates to a text of ARBITRARY class (the property must hold whatever it is).
Recursive calls on the children are replaced by the function's own contract (induction on the tree): the text
returned for child c has den == sem(c) and an arbitrary class.
"""
import z3

import celpy
import xlate.c7n_to_cel as X
from pyvc import verify as V
from pyvc import symexec as se
from pyvc.values import VText, VStr, VInt, VList, VDict, VObj, VNative, NONE

ATOM, UNARY, REL, AND, OR, TERNARY = range(6)
CLASS_NAMES = ["ATOM", "UNARY", "REL", "AND", "OR", "TERNARY"]
R = X.C7N_Rewriter


class Child:
    """marker class for an abstract child filter (any filter tree; its Custodian semantics is `den`)"""


def text_join(run, sep, items):
    s = se.conc(VStr(str, sep.t))
    if s not in (" && ", " || "):
        raise se.Unsupported(f"join of abstract texts with {s!r}")
    if not all(isinstance(x, VText) for x in items):
        raise se.Unsupported("join mixing abstract and concrete text")
    if len(items) == 1:
        return items[0]
    limit = AND if s == " && " else OR
    for i, x in enumerate(items):
        run.check(z3.BoolVal(x.prec <= limit),
                  f"operand {i} of the {s.strip()}-join has a top-level operator that binds at least as tightly "
                  f"(class {CLASS_NAMES[x.prec]} <= {CLASS_NAMES[limit]})")
    dens = [x.den for x in items]
    return VText(limit, z3.And(dens) if s == " && " else z3.Or(dens))


def text_fstring(run, parts):
    consts = [p for p in parts if isinstance(p, str)]
    texts = [p for p in parts if isinstance(p, VText)]
    if len(texts) != 1 or len(parts) != 3 or not isinstance(parts[0], str) or not isinstance(parts[2], str):
        raise se.Unsupported(f"f-string shape over abstract text: {parts!r}")
    t = texts[0]
    if (parts[0], parts[2]) == ("(", ")"):
        return VText(ATOM, t.den)
    if (parts[0], parts[2]) == ("! (", ")"):
        return VText(UNARY, z3.Not(t.den))
    raise se.Unsupported(f"f-string shape over abstract text: {consts!r}")


def operand_model(run, text, connector):
    """Contract of C7N_Rewriter.operand (validated natively in operand_table): group iff the text's class is looser."""
    c = se.conc(connector)
    if not isinstance(text, VText):
        raise se.Unsupported("operand() on concrete text")
    loose = {"&&": (OR, TERNARY), "||": (TERNARY,)}[c]
    return VText(ATOM, text.den) if text.prec in loose else text


def install(run):
    run.ghost["text_join"] = text_join
    run.ghost["text_fstring"] = text_fstring
    real_lc = R.__dict__["logical_connector"].__func__

    def lc_override(run, resource, c7n_filter, level=None):
        if isinstance(c7n_filter, VObj) and c7n_filter.cls is Child:
            # induction hypothesis: den == sem(child); class arbitrary
            k = run.choose(6, "child-class")
            run.ghost.setdefault("rec_levels", []).append(level)
            return VText(k, c7n_filter.attrs["den"])
        args = [resource, c7n_filter] + ([level] if level is not None else [])
        return run.call_ast(run.engine.vfunc_of(real_lc), args, {})
    run.engine.overrides[real_lc] = lc_override
    if hasattr(R, "operand"):
        run.engine.overrides[R.__dict__["operand"].__func__] = operand_model

    def prim_override(run, resource, c7n_filter):
        k = run.choose(6, "prim-class")
        return VText(k, c7n_filter.attrs["den"] if isinstance(c7n_filter, (VObj, VDict)) and "den" in (c7n_filter.attrs or {})
                     else run.fresh("prim", z3.BoolSort()))
    run.engine.overrides[R.__dict__["primitive"].__func__] = prim_override


def mk_children(run, n):
    return [VObj(Child, {"den": z3.Bool(f"child{i}")}, label=f"child{i}") for i in range(n)]


def node_contract(kind, n):
    def invoke(run, S):
        install(run)
        kids = mk_children(run, n)
        S.kids = kids
        if kind == "list":
            node = VList(list, kids)
        elif kind == "prim":
            node = VDict(dict, [[VStr(str, "type"), VStr(str, "value")]], {"den": z3.Bool("prim0")})
        else:
            node = VDict(dict, [[VStr(str, kind), VList(list, kids)]])
        return run.call(VNative(R.__dict__["logical_connector"].__func__), [VStr(str, "resource"), node, S.level])

    def post(S, r):
        if not isinstance(r, VText):
            return False
        dens = [k.attrs["den"] for k in S.kids]
        if kind in ("and", "list"):
            sem = z3.And(dens)
        elif kind == "or":
            sem = z3.Or(dens)
        elif kind == "not":
            sem = z3.Not(z3.And(dens))
        else:
            sem = z3.Bool("prim0")
        return r.den == sem
    return V.Contract("xlate.c7n_to_cel:C7N_Rewriter.logical_connector", [("level", V.IntDom(int, 0, None, "level>=0"))],
                      name=f"logical_connector[{kind}, {n} children]", invoke=invoke, ret=post, exc={}, cover=False,
                      native=False)


def contracts():
    cs = [node_contract("prim", 0)]
    for kind in ("not", "or", "and", "list"):
        for n in (1, 2, 3):
            cs.append(node_contract(kind, n))
    return cs


# ------------------------------------------------------------------ validation of the abstraction against the real parser
_P_LARK = []


def _init_lark():
    if not _P_LARK:
        celpy.CELParser.CEL_PARSER = None
        celpy.CELParser()
        _P_LARK.append(celpy.CELParser.CEL_PARSER)
        celpy.CELParser.CEL_PARSER = None


def true_class(text):
    _init_lark()
    """Top-level operator class of a CEL text according to the library's own parser."""
    t = _P_LARK[0].parse(text)
    order = [("expr", TERNARY), ("conditionalor", OR), ("conditionaland", AND), ("relation", REL),
             ("addition", REL), ("multiplication", REL), ("unary", UNARY)]
    node = t
    for name, cls in order:
        assert node.data == name, (node.data, name)
        if len(node.children) > 1:
            return cls
        node = node.children[0]
    return ATOM


REPRESENTATIVES = [
    'a', 'f(x)', 'resource["a"]', 'a.b["c"]', '(a || b)', '(a ? b : c)', '[1, 2].contains(x)', '"a || b"', "'?'",
    '! a', '! (a && b)', '-x', '! resource["Tags"].exists(x, x["Key"] == "a||b")',
    'a == b', 'a in b', 'size(x) > 1', '"a||b" == x', 'x == "?"', 'x == "\\"||\\""', "x == '&&'", 'a + b == c', 'x["a)(?"] != 1',
    'a && b', 'a == 1 && b == 2', 'a && (b || c)', 'a && b && c',
    'a || b', 'a && b || c', 'a || b && c', 'x == "(" || y',
    'a ? b : c', 'a || b ? c : d', 'a ? b : c ? d : e', 'x == ")" ? y : z',
]


ATOMS = ['a', '(x)', '"s"', "'s'", '"it\'s"', '\'say "hi"\'', '"a||b"', "'a&&b'", '"?"', '"("', '")"', '"\\""',
         'x["k"]', 'f(a, b)', '[1]', '{1: 2}', '(p || q)', '(p ? q : r)']


def generated_texts():
    """Systematic family: every operator class built from atoms that contain quotes of both kinds, operator
    characters inside literals, brackets and leading/trailing groups."""
    import itertools
    out = list(REPRESENTATIVES) + list(ATOMS)
    for a in ATOMS:
        out.append(f"! {a}")
    for a, b in itertools.product(ATOMS, repeat=2):
        out += [f"{a} == {b}", f"{a} && {b}", f"{a} || {b}"]
    small = ['a', '"it\'s"', '\'say "hi"\'', '(p || q)', '"a||b"', '"?"']
    for a, b, c in itertools.product(small, repeat=3):
        out += [f"{a} ? {b} : {c}", f"{a} && {b} || {c}", f"{a} || {b} && {c}", f"({a} && {b}) || ({c} && {a})",
                f"({a} || {b}) && ({c} || {a})"]
    seen, res = set(), []
    for t in out:
        if t not in seen:
            seen.add(t)
            res.append(t)
    return res


def operand_table(rep):
    """E: C7N_Rewriter.operand groups exactly the texts whose class is looser than the connector (real parser as oracle),
    and the grouped text is an ATOM containing the same tree."""
    func = "C7N_Rewriter.operand / top_level_operators"
    if not hasattr(R, "operand"):
        V.table_obl(rep, "operand-table", func, "operand() exists", False, "C7N_Rewriter.operand missing")
        return
    for text in generated_texts():
        try:
            cls = true_class(text)
        except Exception:
            continue            # not a CEL text (e.g. a map literal the grammar rejects): outside the family
        for conn, loose in (("&&", (OR, TERNARY)), ("||", (TERNARY,))):
            got = R.operand(text, conn)
            want_wrap = cls in loose
            ok = (got == f"({text})") if want_wrap else (got == text)
            if ok and want_wrap:
                ok = true_class(got) == ATOM
            o = V.table_obl(rep, f"operand[{text!r},{conn}]", func,
                            f"class {CLASS_NAMES[cls]} operand of {conn}: grouped iff looser", ok,
                            f"input: operand({text!r}, {conn!r}) -> {got!r}")
            if not ok:
                o.replay = {"replayed": True, "confirmed": True, "inputs": {"text": text, "connector": conn},
                            "observed": f"{got!r} (class of the text by the library's parser: {CLASS_NAMES[cls]})"}


def composition_table(rep):
    """E: the composition rules of the ghost typing agree with the real parser, for every (connector, class, class)."""
    import itertools
    reps = {ATOM: 'a1', UNARY: '! a2', REL: 'a3 == b3', AND: 'a4 && b4', OR: 'a5 || b5', TERNARY: 'a6 ? b6 : c6'}
    func = "ghost typing rules vs celpy.CELParser"

    def norm(t):
        return " ".join(celpy.celparser.tree_dump(t).split())
    celpy.CELParser.CEL_PARSER = None
    p = celpy.CELParser()
    for conn, limit, rule in (("&&", AND, "conditionaland"), ("||", OR, "conditionalor")):
        for c1, c2 in itertools.product(range(6), repeat=2):
            t1, t2 = reps[c1], reps[c2]
            tree = p.parse(f"{t1} {conn} {t2}")
            want = p.parse(f"({t1}) {conn} ({t2})")
            # faithful iff the tree of the bare join equals the tree of the fully grouped join modulo paren nodes
            same = strip_parens(tree) == strip_parens(want)
            allowed = c1 <= limit and c2 <= limit
            ok = same if allowed else True     # the rule only promises faithfulness under its precondition
            V.table_obl(rep, f"compose[{conn},{CLASS_NAMES[c1]},{CLASS_NAMES[c2]}]", func,
                        f"{CLASS_NAMES[c1]} {conn} {CLASS_NAMES[c2]}: bare join parses as the grouped join when both <= {CLASS_NAMES[limit]}",
                        ok, f"input: {t1} {conn} {t2}")
            # and the precondition is not vacuous-too-strong: violating it really changes the tree
            if not allowed:
                V.table_obl(rep, f"compose-needed[{conn},{CLASS_NAMES[c1]},{CLASS_NAMES[c2]}]", func,
                            "precondition is necessary: bare join differs from the grouped join", not same or c1 <= limit,
                            f"input: {t1} {conn} {t2}")
    for c in range(6):
        t = reps[c]
        V.table_obl(rep, f"compose[paren,{CLASS_NAMES[c]}]", func, "(t) is an ATOM", true_class(f"({t})") == ATOM, f"input: ({t})")
        V.table_obl(rep, f"compose[not,{CLASS_NAMES[c]}]", func, "! (t) is UNARY", true_class(f"! ({t})") == UNARY, f"input: ! ({t})")
    celpy.CELParser.CEL_PARSER = None


def strip_parens(t):
    """Tree as nested tuples with paren_expr nodes and single-child chains removed."""
    import lark
    if isinstance(t, lark.Token):
        return ("tok", t.type, str(t))
    kids = [strip_parens(c) for c in t.children]
    if t.data == "paren_expr":
        return kids[0]
    if len(kids) == 1 and t.data in ("expr", "conditionalor", "conditionaland", "relation", "addition", "multiplication",
                                     "unary", "member", "primary"):
        return kids[0]
    if t.data in ("conditionalor", "conditionaland"):
        # && and || are associative: compare n-ary operand lists (denotation-preserving normal form)
        flat = []
        for k in kids:
            if isinstance(k, tuple) and k[0] == t.data:
                flat.extend(k[1])
            else:
                flat.append(k)
        return (t.data, tuple(flat))
    return (t.data, tuple(kids))
