"""C09: map / filter / exists_one over a receiver list of unknown length (interpreter branches of member_dot_arg and the
macro_* helpers of the compiled runner)."""
import itertools

import z3

import celpy
import celpy.celtypes as ct
import celpy.evaluation as ev
from contracts import elems, templates as T
from contracts.evaluator_rules import rule_contract, STUB, TOK, is_error, sym_activation
from contracts.logic import BOOL, ERR, desc
from contracts.macros import macro_shape
from contracts.specs import *
from pyvc import verify as V
from pyvc import symexec as se
from pyvc.values import VInt, VStr, VList, VDict, VObj, VNative, VSymList, VSymIter, VModel, VTuple, NONE

BODY_OUTCOMES = [BOOL, ERR]        # well-typed predicate bodies: a bool or an evaluation error


def receiver(run, name):
    drawn = run.ghost.setdefault("drawn", [])

    def nxt(run):
        e = VObj(elems.Elem, {}, label=f"elem{len(drawn)}")
        drawn.append(e)
        return e
    return VSymList(ct.ListType, nxt, "receiver")


RECV = V.FnDom(receiver, "ListType[unknown length]")


def bound_value(evaluator, name="x"):
    """value bound to the macro variable in the evaluator that visits the body (through the real activation code)"""
    act = evaluator.attrs["activation"]
    ids = act.attrs["identifiers"]
    for k, ref in ids.pairs:
        if se.conc(k) == name:
            return ref.attrs.get("_value")
    return None


def body(run):
    """macro body: an arbitrary well-typed outcome; records which element the variable was bound to"""
    ev_ = run.ghost.get("visiting_evaluator")
    k = run.choose(len(BODY_OUTCOMES), "body-outcome")
    out = BODY_OUTCOMES[k].make(run, f"body{run.counter}")
    run.ghost.setdefault("body_log", []).append((bound_value(ev_) if ev_ is not None else None, out))
    return out


class CountInv:
    """exists_one: the running sum equals the number of satisfying elements so far"""

    def summary0(self):
        return z3.IntVal(0)

    def fresh(self, run):
        c = run.fresh_int("count")
        run.assume(c >= 0)
        return c

    def holds(self, acc, sm):
        return isinstance(acc, VInt) and acc.t == sm

    def make_acc(self, run, sm):
        return VInt(int, sm)

    def extend(self, sm, x):
        return sm if x is se.Run.__dict__.get("_never") or x is _skip() else sm + 1


def _skip():
    from pyvc import models
    return models.SKIP


def interpreter_contracts():
    cs = []

    def setup(run, S):
        elems.install(run)
        S.body = body
        run.ghost["fold_inv"] = CountInv()

    # ---- map: same size, element i is the body evaluated with x bound to l[i]
    def map_post(S, r):
        g = S._run.ghost
        if is_error(r):
            # an error outcome only because some element's body was an error
            return any(desc(o) == "E" for _, o in g.get("body_log", []))
        if not (isinstance(r, VSymList) and r.cls is ct.ListType):
            return False
        same_len = r.length is not None and S.recv.length is not None and z3.eq(r.length, S.recv.length)
        # every body evaluation saw the variable bound to the element drawn for it, and yielded the list's element
        drawn = g.get("drawn", [])
        bl = g.get("body_log", [])
        bound_ok = len(bl) == len(drawn) and all(b is d for (b, _), d in zip(bl, drawn))
        probes = [p for (lst, p) in g.get("list_probe", []) if lst is r]
        elem_ok = all(any(p is o for _, o in bl) for p in probes)
        return bool(same_len and bound_ok and elem_ok)
    c = rule_contract("member_dot_arg", macro_shape("map"), [("recv", RECV)], "Evaluator.member_dot_arg[map](list of unknown length)",
                      map_post, cover=False)
    c.setup, c.native = setup, False
    c.witnesses = [("[1].map(x, 1/0) == [1] || true", lambda: _both("[1].map(x, 1/0) == [1] || true", True))]
    cs.append(c)

    # ---- filter: the kept elements are exactly those whose predicate is true, in order (builtin filter over the receiver)
    def filter_post(S, r):
        g = S._run.ghost
        if is_error(r):
            return any(desc(o) == "E" for _, o in g.get("body_log", []))
        if not (isinstance(r, VSymList) and r.cls is ct.ListType):
            return False
        bl = g.get("body_log", [])
        fl = g.get("filter_log", [])
        drawn = g.get("drawn", [])
        # each element was tested with the variable bound to it, and kept iff its predicate was true
        ok = len(fl) == len(bl) == len(drawn)
        conds = []
        for (x, keep), (b, o), d in zip(fl, bl, drawn):
            ok = ok and x is d and b is d
            conds.append(z3.BoolVal(keep) == (o.t != 0) if isinstance(o, VInt) else z3.BoolVal(False))
        probes = [p for (lst, p) in g.get("list_probe", []) if lst is r]
        ok = ok and all((p is _skip()) or any(p is d for d in drawn) for p in probes)
        src_ok = any(lst is r and isinstance(src, VSymIter) and src.label == "filter" and src.source is S.recv
                     for lst, src in g.get("list_from", []))
        return z3.And(z3.BoolVal(bool(ok and src_ok)), *conds)
    c = rule_contract("member_dot_arg", macro_shape("filter"), [("recv", RECV)], "Evaluator.member_dot_arg[filter](list of unknown length)",
                      filter_post, cover=False)
    c.setup, c.native = setup, False
    c.witnesses = [("[1, 0].filter(x, 2/x > 0) == [1] || true", lambda: _both("[1, 0].filter(x, 2/x > 0) == [1] || true", True))]
    cs.append(c)

    # ---- exists_one: true iff exactly one element satisfies
    def one_post(S, r):
        g = S._run.ghost
        if is_error(r):
            return any(desc(o) == "E" for _, o in g.get("body_log", []))
        cnt = g.get("fold_final_summary")
        if cnt is None:
            return False
        return is_bool(r, ct.BoolType, cnt == 1)
    c = rule_contract("member_dot_arg", macro_shape("exists_one"), [("recv", RECV)],
                      "Evaluator.member_dot_arg[exists_one](list of unknown length)", one_post, cover=False)
    c.setup, c.native = setup, False
    c.witnesses = [("[1, 0].exists_one(x, 2/x > 0) || true", lambda: _both("[1, 0].exists_one(x, 2/x > 0) || true", True))]
    cs.append(c)
    return cs


def _both(text, want):
    out = []
    for runner in (celpy.InterpretedRunner, celpy.CompiledRunner):
        celpy.CELParser.CEL_PARSER = None
        env = celpy.Environment(runner_class=runner)
        try:
            v = env.program(env.compile(text)).evaluate({})
            if not (isinstance(v, ct.BoolType) and bool(v) == want):
                out.append(f"{runner.__name__}: {text} -> {v!r}, expected {want}")
        except Exception as ex:
            out.append(f"{runner.__name__}: {text} -> {type(ex).__name__}{ex.args[:1]}, expected {want}")
    celpy.CELParser.CEL_PARSER = None
    return (not out), "; ".join(out)


class FilterLoopInv:
    """macro_filter: after an iteration, `value` was appended to r exactly when bool(f) is true - and it is `value`."""

    def holds(self, run, env):
        r = run.lookup("r", env)
        if isinstance(r, VList):
            return len(r.items) == 0            # on entry: nothing kept yet
        app = [x for (lst, x) in run.ghost.get("appended", []) if lst is r]
        if "value" not in env.vars or "f" not in env.vars:
            return len(app) == 0                # a skipped element
        value, f = env.vars["value"], env.vars["f"]
        t = run.truth(f)
        t = z3.BoolVal(t) if isinstance(t, bool) else t
        if len(app) == 0:
            return z3.Not(t)
        return z3.And(t, z3.BoolVal(len(app) == 1 and app[0] is value))

    def havoc(self, run, env):
        kept = VSymList(list, lambda run: VObj(elems.Elem, {}, label="kept"), "kept-so-far")
        env.vars["r"] = kept
        env.vars.pop("value", None)
        env.vars.pop("f", None)
        run.ghost["appended"] = []
        run.ghost["kept"] = kept


class CountLoopInv:
    """macro_exists_one: `count` equals the number of elements seen so far whose body outcome is true"""

    def holds(self, run, env):
        c = run.lookup("count", env)
        g = run.ghost
        want = g.get("count_ghost", z3.IntVal(0))
        new = g.get("body_log", [])[g.get("count_mark", 0):]
        inc = z3.IntVal(0)
        for _, o in new:
            if isinstance(o, VInt):
                inc = inc + z3.If(o.t != 0, 1, 0)
        return isinstance(c, VInt) and c.t == want + inc

    def havoc(self, run, env):
        c = run.fresh_int("count")
        run.assume(c >= 0)
        env.vars["count"] = VInt(int, c)
        run.ghost["count_ghost"] = c
        run.ghost["count_mark"] = len(run.ghost.get("body_log", []))

    def done(self, run, env):
        run.ghost["final_count"] = run.ghost["count_ghost"]


class MapLoopInv:
    """macro_map: `values` holds one image per element consumed so far, the one appended in this iteration being the
    body's outcome for the element just bound; when the loop ends every element of the receiver has been consumed"""

    def __init__(self, recv):
        self.recv = recv
        self.cur = None

    def holds(self, run, env):
        v = run.lookup("values", env)
        if isinstance(v, VList):
            return len(v.items) == 0
        if v is not self.cur:
            return False
        app = [x for (lst, x) in run.ghost.get("appended", []) if lst is v]
        outs = [o for _, o in run.ghost.get("body_log", [])[self.mark:]]
        return len(app) == len(outs) == 1 and app[0] is outs[0]

    def havoc(self, run, env):
        k = run.fresh_int("consumed")
        run.assume(k >= 0)
        self.cur = VSymList(list, lambda run: VObj(elems.Elem, {}, label="image"), "images-so-far")
        self.cur.length = k
        env.vars["values"] = self.cur
        env.vars.pop("value", None)
        run.ghost["appended"] = []
        self.mark = len(run.ghost.get("body_log", []))

    def done(self, run, env):
        final = VSymList(list, lambda run: VObj(elems.Elem, {}, label="image"), "images")
        final.length = self.recv.length
        env.vars["values"] = final
        run.ghost["images_final"] = final


def compiled_contracts():
    cs = []
    for name in ("map", "filter", "exists_one"):
        fn = getattr(ev, f"macro_{name}")

        def invoke(run, S, fn=fn, name=name):
            elems.install(run)
            act = sym_activation(run)
            S.recv = receiver(run, "recv")
            run.engine.models.b_len(run, S.recv)
            run.engine.overrides[ev.Activation.nested_activation] = \
                lambda run, self, annotations=None, vars=None: VObj(ev.Activation, {"bound": vars}, label="nested")
            cel_gen = VModel(lambda run, activation: S.recv, "cel_gen")
            log = run.ghost.setdefault("body_log", [])

            def body_(run, activation):
                bound = activation.attrs["bound"].pairs[0][1] if isinstance(activation, VObj) and "bound" in activation.attrs else None
                k = run.choose(len(T.RESULT_EXCS) + 2, "body-kind")
                if k == len(T.RESULT_EXCS) + 1:
                    # the body yields an error as a VALUE (it is ||, &&, ?: ...): that error is the macro's result
                    err = VObj(ev.CELEvalError, {"args": VTuple([])}, label="body error value")
                    log.append((bound, "EV"))
                    run.ghost["body_error_value"] = err
                    return err
                if k > 0:
                    log.append((bound, "E"))
                    raise se.PyRaise(VObj(T.RESULT_EXCS[k - 1], {"args": VTuple([VStr(str, "hole")])}))
                out = BOOL.make(run, f"body{run.counter}") if name != "map" else VObj(elems.Elem, {}, label="image")
                log.append((bound, out))
                return out
            cel_expr = VModel(body_, "cel_expr")
            if name == "filter":
                run.ghost["loop_inv"] = {None: FilterLoopInv()}
            if name == "exists_one":
                run.ghost["loop_inv"] = {None: CountLoopInv()}
            if name == "map":
                run.ghost["loop_inv"] = {None: MapLoopInv(S.recv)}
            return run.call(VNative(fn), [act, VStr(str, "x"), cel_expr, cel_gen])

        def post(S, r, name=name):
            g = S._run.ghost
            if is_error(r):
                return r is g.get("body_error_value")          # only an error value of the body comes back as a value
            if any(o == "EV" for _, o in g.get("body_log", [])):
                return False                                    # ... and it always does
            drawn, bl = g.get("drawn", []), g.get("body_log", [])
            bound_ok = len(bl) == len(drawn) and all(b is d for (b, _), d in zip(bl, drawn))
            if name == "map":
                ok = isinstance(r, VSymList) and r.cls is ct.ListType and r.length is not None and z3.eq(r.length, S.recv.length) \
                    and any(lst is r and src is g.get("images_final") for lst, src in g.get("list_from", []))
                return bool(ok and bound_ok)
            if name == "filter":
                ok = isinstance(r, VSymList) and r.cls is ct.ListType and \
                    any(lst is r and getattr(src, "source", None) is g.get("kept") for lst, src in g.get("list_from", []))
                return bool(ok and bound_ok)
            cnt = g.get("final_count")
            return False if cnt is None else is_bool(r, ct.BoolType, cnt == 1)

        def exc_ok(S):
            return any(o == "E" for _, o in S._run.ghost.get("body_log", []))
        cs.append(V.Contract(f"celpy.evaluation:macro_{name}", [], name=f"macro_{name}(list of unknown length)", invoke=invoke,
                             ret=post, exc={X: exc_ok for X in T.RESULT_EXCS}, cover=False, native=False))
    return cs


def contracts():
    return interpreter_contracts() + compiled_contracts()


def bounded(rep, tier, seed):
    """Reference evaluator on concrete lists, both runners (labelled bounded)."""
    import random
    rng = random.Random(seed)
    fails = []
    n = 0
    lists = [[], [1], [1, 2, 3], [3, 1, 2, 1], [0, 5, 0]]
    preds = [("x > 1", lambda x: x > 1), ("x == 1", lambda x: x == 1), ("x % 2 == 0", lambda x: x % 2 == 0), ("true", lambda x: True)]
    for runner in (celpy.InterpretedRunner, celpy.CompiledRunner):
        celpy.CELParser.CEL_PARSER = None
        env = celpy.Environment(runner_class=runner)
        for l, (ptxt, p) in itertools.product(lists, preds):
            L = "[" + ", ".join(map(str, l)) + "]"
            exprs = [(f"{L}.map(x, x * 2)", [x * 2 for x in l]), (f"{L}.filter(x, {ptxt})", [x for x in l if p(x)]),
                     (f"{L}.exists_one(x, {ptxt})", sum(1 for x in l if p(x)) == 1), (f"{L}.all(x, {ptxt})", all(p(x) for x in l)),
                     (f"{L}.exists(x, {ptxt})", any(p(x) for x in l)), (f"size({L}.map(x, x)) == size({L})", True),
                     (f"2 in {L}", 2 in l), (f"({L}.exists(y, y == 2)) == (2 in {L})", True)]
            for text, want in exprs:
                n += 1
                try:
                    got = env.program(env.compile(text)).evaluate({})
                    ok = got == want and (not isinstance(want, bool) or isinstance(got, ct.BoolType))
                except Exception as ex:
                    got, ok = repr(ex)[:100], False
                if not ok:
                    fails.append({"runner": runner.__name__, "cel": text, "observed": repr(got), "expected": want})
        # nested macros (same and different variable names, a context variable of the same name) and size() in code points
        nested = [("[1, 2].map(x, [10, 20].map(x, x))", [[10, 20], [10, 20]], {}), ("[1, 2].map(x, [10, 20].map(y, x + y))", [[11, 21], [12, 22]], {}),
                  ("[1, 2].map(x, x + 1)", [2, 3], {"x": ct.IntType(100)}), ("[1, 2].filter(x, [2, 3].exists(x, x == 3))", [1, 2], {}),
                  ("[1, 2].exists_one(x, [x].all(x, x == 2))", True, {}), ("[[1, 2], [3]].map(l, l.map(l, l * 2))", [[2, 4], [6]], {})]
        for text, want, b in nested:
            n += 1
            try:
                got = env.program(env.compile(text)).evaluate(dict(b))
                ok = got == want
            except Exception as ex:
                got, ok = repr(ex)[:100], False
            if not ok:
                fails.append({"runner": runner.__name__, "cel": text, "bindings": sorted(b), "observed": repr(got), "expected": want})
        for s_ in ["", "abc", "e\u0301", "\u1112\u1161\u11ab", "\U0001f431", "a\u0308\u0323", "\u00e9"]:
            for form in ("size(s)", "s.size()", "size(s + s) == size(s) + size(s)"):
                n += 1
                want = len(s_) if "==" not in form else True
                try:
                    got = env.program(env.compile(form)).evaluate({"s": ct.StringType(s_)})
                    ok = got == want
                except Exception as ex:
                    got, ok = repr(ex)[:100], False
                if not ok:
                    fails.append({"runner": runner.__name__, "cel": form, "s": ascii(s_), "observed": repr(got), "expected": want})
        for text in ["[1, 2, 3][3]", "[1, 2, 3][-1]", "{'a': 1}['b']", "{'a': 1, 'a': 2}", "'abc'.matches('(')", "[][0]"]:
            n += 1
            try:
                got = env.program(env.compile(text)).evaluate({})
                fails.append({"runner": runner.__name__, "cel": text, "observed": repr(got), "expected": "evaluation error"})
            except ev.CELEvalError:
                pass
            except Exception as ex:
                fails.append({"runner": runner.__name__, "cel": text, "observed": repr(ex)[:100], "expected": "evaluation error"})
    celpy.CELParser.CEL_PARSER = None
    rep.bounded.append({"function": "macros / index / in / size against a reference evaluator, both runners", "cases": n,
                        "distinct_nontrivial": n, "bound": "5 lists x 4 predicates x 8 program shapes + 6 error programs", "failures": len(fails)})
    if fails:
        o = rep.add(V.Obl("c09#bounded", "B", "member_dot_arg / macro_*", "bounded stand-in against a reference evaluator"))
        o.status, o.backend = "refuted", "cpython"
        o.detail = "failing input: " + repr(fails[0])[:500]
        o.replay = {"replayed": True, "confirmed": True, "inputs": fails[0], "more": fails[1:4]}
