"""shared mock of a base activation with a plain and a dotted name"""
import z3
import celpy.celtypes as ct
import celpy.evaluation as ev
from pyvc import symexec as se
from pyvc.values import VInt, VStr, VObj, VDict, VList, VNative, NONE


def mk_base(run):
    """base activation with a plain name x and a dotted name a.b (nested container), values already bound, and a declared-only name y"""
    inner = VDict(ev.NameContainer, [], {"parent": NONE})
    ref_b = VObj(ev.Referent, {"annotation": VNative(ct.IntType), "container": NONE, "_value": VInt(ct.IntType, z3.Int("old_ab")), "_value_set": se.lift(True)})
    inner.pairs.append([VStr(str, "b"), ref_b])
    ref_a = VObj(ev.Referent, {"annotation": NONE, "container": inner, "_value": NONE, "_value_set": se.lift(False)})
    ref_x = VObj(ev.Referent, {"annotation": VNative(ct.IntType), "container": NONE, "_value": VInt(ct.IntType, z3.Int("old_x")), "_value_set": se.lift(True)})
    # a bare declaration: annotation only, no value bound yet, no nested container (e.g. an annotation without a binding)
    ref_y = VObj(ev.Referent, {"annotation": VNative(ct.IntType), "container": NONE, "_value": NONE, "_value_set": se.lift(False)})
    ids = VDict(ev.NameContainer, [[VStr(str, "a"), ref_a], [VStr(str, "x"), ref_x], [VStr(str, "y"), ref_y]], {"parent": NONE})
    import collections
    fmap = VObj(collections.ChainMap, {"maps": VList(list, [VDict(dict, [])])}, label="functions")
    return VObj(ev.Activation, {"identifiers": ids, "functions": fmap, "package": NONE}, label="base")


