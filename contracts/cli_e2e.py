"""C20 bounded stand-in: the real `main()` on concrete argument vectors and NDJSON streams (stdin/stdout patched),
compared with the status/outputs required by the statement.  Labelled bounded; gives replayable failing inputs."""
import contextlib
import io
import itertools
import json
import sys

import celpy
import celpy.__main__ as M
from pyvc import verify as V


def run_main(argv, stdin_text=""):
    celpy.CELParser.CEL_PARSER = None
    out, err = io.StringIO(), io.StringIO()
    old = sys.stdin
    sys.stdin = io.StringIO(stdin_text)
    try:
        with contextlib.redirect_stdout(out), contextlib.redirect_stderr(err):
            try:
                status = M.main(argv)
            except SystemExit as ex:
                status = ex.code
            except Exception as ex:
                status = f"raised {ex!r}"
    finally:
        sys.stdin = old
        celpy.CELParser.CEL_PARSER = None
    return status, out.getvalue(), err.getvalue()


def bounded(rep, tier, seed):
    fails = []
    n = 0
    # -n mode
    for expr, want_out, want_b in [("1 + 2", "3", 2), ("true", "true", 0), ("false", "false", 1), ('"a" + "b"', '"ab"', 2),
                                   ("[1, 2].map(x, x * 2)", "[2, 4]", 2), ("1 / 0", None, 2), ("2 > 1", "true", 0), ("null", "null", 2),
                                   ("[1, true]", "[1, true]", 2), ("[1, [false]]", "[1, [false]]", 2), ('{"a": [1, false], "b": true}', '{"a": [1, false], "b": true}', 2),
                                   ('["x", {"flag": false}]', '["x", {"flag": false}]', 2), ("[true, 1]", "[true, 1]", 2), ("[1.5, null, true]", "[1.5, null, true]", 2)]:
        n += 2
        st, out, err = run_main(["-n", expr])
        if want_out is None:
            ok = st == 2
        else:
            ok = st == 0 and out.strip() == want_out
        if not ok:
            fails.append({"argv": ["-n", expr], "status": st, "stdout": out, "expected_stdout": want_out})
        st, out, err = run_main(["-n", "-b", expr])
        if st != want_b:
            fails.append({"argv": ["-n", "-b", expr], "status": st, "expected_status": want_b})
    n += 1
    st, out, err = run_main(["-n", "1 +"])
    if st != 1 or not err.strip():
        fails.append({"argv": ["-n", "1 +"], "status": st, "stderr": err, "expected_status": 1})
    # typed --arg bindings, the empty text included
    for argv, want_out in ((["-n", "-a", "s:string=", "size(s)"], "0"), (["-n", "-a", "s:string=abc", "size(s)"], "3"), (["-n", "-a", "i:int=7", "i + 1"], "8"),
                           (["-n", "-a", "s:string=", 's == ""'], "true"), (["-n", "-a", "b:bool=true", "b"], "true"), (["-n", "-a", "d:double=1.5", "d * 2.0"], "3.0")):
        n += 1
        st, out, err = run_main(argv)
        if st != 0 or out.strip() != want_out:
            fails.append({"argv": argv, "status": st, "stdout": out, "expected_stdout": want_out})
    # NDJSON: output k depends on document k only; status = worst
    docs = ['{"a": 1}', '{"a": 0}', "nope", "null", '{"b": 2}', "[1]", '{"a": 1} xyz', '{"a": 1}}', '{"a": 1} {"a": 0}']
    per = {'{"a": 1}': ("true", 0), '{"a": 0}': ("false", 1), "nope": (None, 3), "null": ("null", 0), '{"b": 2}': ("null", 0), "[1]": ("null", 0),
           # a line that merely STARTS with a JSON value is not JSON
           '{"a": 1} xyz': (None, 3), '{"a": 1}}': (None, 3), '{"a": 1} {"a": 0}': (None, 3)}
    lens = (1, 2, 3) if tier == "thorough" else (1, 2)
    for L in lens:
        for stream in itertools.product(docs, repeat=L):
            for b in (False, True):
                n += 1
                argv = (["-b"] if b else []) + ["-d", "doc", "doc.a == 1"]
                st, out, err = run_main(argv, "".join(d + "\n" for d in stream))
                want_lines = [per[d][0] for d in stream if per[d][0] is not None]
                want_status = max((per[d][1] if (b or per[d][1] == 3) else 0) for d in stream)
                if out.strip().splitlines() != want_lines or st != want_status:
                    fails.append({"argv": argv, "stdin": list(stream), "status": st, "stdout": out.split(),
                                  "expected_status": want_status, "expected_stdout": want_lines})
    rep.bounded.append({"function": "celpy.__main__.main end-to-end", "cases": n, "distinct_nontrivial": n,
                        "bound": f"8 expressions with/without -b, a syntax error, all NDJSON streams of length <= {max(lens)} over 9 documents (three of them a valid JSON value followed by more text)",
                        "failures": len(fails)})
    if fails:
        o = rep.add(V.Obl("main#bounded-e2e", "B", "celpy.__main__.main", "bounded stand-in: CLI output and status on concrete runs"))
        o.status, o.backend = "refuted", "cpython"
        o.detail = "failing input: " + json.dumps(fails[0])[:600]
        o.replay = {"replayed": True, "confirmed": True, "inputs": fails[0], "more": fails[1:4]}
