"""C04, layer 1: raise-envelope contracts on the Evaluator rule methods with the operator implementations abstracted.

Each rule method resolves its operator by name (activation.resolve_function) and calls it.  Here the resolved function
is *abstract*: it returns an arbitrary value or raises any exception class of its declared envelope DECLARED[name]
(layer 2 - props/c04.py - checks the real implementations against the same table).  Contract of every rule: whatever
the outcomes of the children (a value of every kind, or an error value), the method returns or raises CELEvalError -
`exc={}` makes every other exception an R (raise-envelope) obligation.
"""
import lark
import z3

import celpy.celtypes as ct
import celpy.evaluation as ev
from contracts.evaluator_rules import rule_contract, STUB, TOK, is_error
from pyvc import verify as V
from pyvc import symexec as se
from pyvc.values import VInt, VObj, VList, VTuple, VStr, VDict, VModel, VOpaque, VNative, NONE

ARITH = (TypeError, ValueError, OverflowError)
DECLARED = {
    "_?_:_": (TypeError,), "_||_": (TypeError,), "_&&_": (TypeError,),
    "_<_": ARITH, "_<=_": ARITH, "_>_": ARITH, "_>=_": ARITH, "_==_": ARITH, "_!=_": ARITH,      # CPython negates an int64 while comparing it with a float
    "_in_": ARITH,
    "_+_": ARITH, "_-_": ARITH, "_*_": ARITH, "_/_": ARITH + (ZeroDivisionError,), "_%_": ARITH + (ZeroDivisionError,),
    "!_": (TypeError,), "-_": (TypeError, ValueError),
    "_[_]": (TypeError, KeyError, IndexError),
}
FUNCTION_ENVELOPE = (TypeError, ValueError, OverflowError, AttributeError)       # any named function or method

ERR = V.ObjDom(ev.CELEvalError, {"args": VTuple([])}, label="CELEvalError")
KINDS = [V.BoolDom(ct.BoolType), V.IntDom(ct.IntType, -2 ** 63, 2 ** 63, "IntType"), V.IntDom(ct.UintType, 0, 2 ** 64, "UintType"),
         V.FloatDom(ct.DoubleType), V.StrDom(ct.StringType), V.BytesDom(ct.BytesType), V.NoneDom(),
         V.FnDom(lambda run, name: VList(ct.ListType, []), "ListType[]", native=lambda: [ct.ListType([])]),
         V.FnDom(lambda run, name: VList(ct.ListType, [VInt(ct.IntType, z3.Int(name + "_e"))]), "ListType[i]", native=lambda: [ct.ListType([ct.IntType(1)])]),
         V.FnDom(lambda run, name: VDict(ct.MapType, []), "MapType{}", native=lambda: [ct.MapType({})]),
         V.FnDom(lambda run, name: se.lift(ct.TimestampType("2020-01-01T00:00:00Z")), "TimestampType", native=lambda: [ct.TimestampType("2020-01-01T00:00:00Z")]),
         V.FnDom(lambda run, name: se.lift(ct.DurationType("1s")), "DurationType", native=lambda: [ct.DurationType("1s")]),
         V.FnDom(lambda run, name: se.lift(ct.IntType), "TypeType", native=lambda: [ct.IntType]),
         ERR]


def abstract_function(name, envelope):
    def model(run, *args, **kw):
        i = run.choose(len(envelope) + 1, f"outcome_{name}")
        if i == len(envelope):
            return VOpaque(f"result of {name}")
        run.throw(envelope[i], f"abstract {name}")
    return model


def install_abstract(run, envelope_for):
    def resolve(run, self, name):
        n = se.conc(name)
        env = envelope_for(n)
        if env is None:
            run.throw(KeyError, n)
        return VModel(abstract_function(n, env), f"abstract:{n}")
    run.engine.overrides[ev.Activation.resolve_function] = resolve


class IdentDom(V.StrDom):
    """a field name as the grammar's IDENT terminal spells it: non-empty, starting with a letter or underscore.  (The empty
    string hashes to 0 like the int key 0: CPython's dict lookup would then compare the two keys - a collision that no
    identifier can produce, and that the engine's structural dict model does not represent.)"""

    def samples(self):
        return [x for x in super().samples() if x and (x[0].isalpha() or x[0] == "_")]

    def make(self, run, name):
        v = super().make(run, name)
        c = z3.StrToCode(z3.SubString(v.t, 0, 1))
        run.assume(z3.And(z3.Length(v.t) >= 1, z3.Or(z3.And(c >= 65, c <= 90), z3.And(c >= 97, c <= 122), c == 95)))
        return v


def envelope_rule(method, shape, args, name, functions_known=True, native=False):
    def env_for(n):
        if n in DECLARED:
            return DECLARED[n]
        return FUNCTION_ENVELOPE if functions_known else None
    c = rule_contract(method, shape, args, name, lambda S, r: True, exc={ev.CELEvalError: lambda S: True}, cover=False)
    inner = c.invoke

    def invoke(run, S):
        install_abstract(run, env_for)
        return inner(run, S)
    c.invoke = invoke
    if not native:
        c.native = False
    return c


def contracts():
    cs = []
    k2 = [("x", KINDS), ("y", KINDS)]
    cs.append(envelope_rule("conditionalor", ("conditionalor", [STUB("x"), STUB("y")]), k2, "Evaluator.conditionalor"))
    cs.append(envelope_rule("conditionaland", ("conditionaland", [STUB("x"), STUB("y")]), k2, "Evaluator.conditionaland"))
    cs.append(envelope_rule("expr", ("expr", [STUB("c"), STUB("x"), STUB("y")]), [("c", KINDS), ("x", [KINDS[1], ERR]), ("y", [KINDS[1], ERR])], "Evaluator.expr"))
    for op in ("relation_lt", "relation_le", "relation_gt", "relation_ge", "relation_eq", "relation_ne", "relation_in"):
        cs.append(envelope_rule("relation", ("relation", [(op, [STUB("x")]), STUB("y")]), k2, f"Evaluator.relation[{op}]"))
    for op in ("addition_add", "addition_sub"):
        cs.append(envelope_rule("addition", ("addition", [(op, [STUB("x")]), STUB("y")]), k2, f"Evaluator.addition[{op}]"))
    for op in ("multiplication_mul", "multiplication_div", "multiplication_mod"):
        cs.append(envelope_rule("multiplication", ("multiplication", [(op, [STUB("x")]), STUB("y")]), k2, f"Evaluator.multiplication[{op}]"))
    for op in ("unary_not", "unary_neg"):
        cs.append(envelope_rule("unary", ("unary", [(op, []), STUB("x")]), [("x", KINDS)], f"Evaluator.unary[{op}]"))
    cs.append(envelope_rule("member_index", ("member_index", [STUB("x"), STUB("y")]), k2, "Evaluator.member_index"))
    for rule in ("expr", "conditionalor", "conditionaland", "relation", "addition", "multiplication", "unary", "member"):
        cs.append(envelope_rule(rule, (rule, [STUB("x")]), [("x", KINDS)], f"Evaluator.{rule}(single child)"))
    cs += call_contracts()
    # containers and member access (no operator function involved: the real celtypes code runs)
    cs.append(envelope_rule("exprlist", ("exprlist", [STUB("x"), STUB("y")]), k2, "Evaluator.exprlist", native=True))
    cs.append(envelope_rule("primary", ("primary", [("list_lit", [STUB("x")])]), [("x", KINDS)], "Evaluator.primary[list_lit]", native=True))
    cs.append(envelope_rule("primary", ("primary", [("list_lit", [])]), [], "Evaluator.primary[list_lit empty]"))
    cs.append(envelope_rule("primary", ("primary", [("map_lit", [])]), [], "Evaluator.primary[map_lit empty]"))
    cs.append(envelope_rule("primary", ("primary", [("paren_expr", [STUB("x")])]), [("x", KINDS)], "Evaluator.primary[paren_expr]", native=True))
    cs.append(envelope_rule("primary", ("primary", [("map_lit", [("mapinits", [STUB("x"), STUB("y")])])]), k2, "Evaluator.primary[map_lit one entry]", native=True))
    for K in (KINDS[0], KINDS[1], KINDS[2], KINDS[4]):      # same-kind keys: equal keys are a duplicate (mixed kinds: bounded, props/c04.py)
        cs.append(envelope_rule("primary", ("primary", [("map_lit", [("mapinits", [STUB("x"), STUB("y"), STUB("z"), STUB("y")])])]),
                                [("x", K), ("y", [KINDS[1], ERR]), ("z", K)], f"Evaluator.primary[map_lit two {K.label} keys]", native=True))
    cs.append(envelope_rule("member_dot", ("member_dot", [STUB("x"), TOK("IDENT", "$name")]), [("x", KINDS), ("name", V.StrDom(str))], "Evaluator.member_dot", native=True))
    cs.append(envelope_rule("member_dot", ("member_dot", [STUB("x"), TOK("IDENT", "$name")]),
                            [("x", V.FnDom(lambda run, name: VDict(ct.MapType, [[VStr(ct.StringType, z3.String(name + "_k")), VInt(ct.IntType, z3.Int(name + "_v"))]]), "MapType{k:v}", native=lambda: [ct.MapType({ct.StringType("a"): ct.IntType(1)})])),
                             ("name", V.StrDom(str))], "Evaluator.member_dot(map with an entry)", native=True))
    # two entries whose keys are of different kinds (a CEL map may have int, uint, bool and string keys side by side)
    cs.append(envelope_rule("member_dot", ("member_dot", [STUB("x"), TOK("IDENT", "$name")]),
                            [("x", V.FnDom(lambda run, name: VDict(ct.MapType, [[VStr(ct.StringType, z3.String(name + "_k")), VInt(ct.IntType, z3.Int(name + "_v"))],
                                                                                [VInt(ct.IntType, z3.Int(name + "_k2")), VInt(ct.IntType, z3.Int(name + "_v2"))]]),
                                           "MapType{string:v,int:v}", native=lambda: [ct.MapType({ct.StringType("a"): ct.IntType(1), ct.IntType(2): ct.IntType(3)})])),
                             ("name", IdentDom(str))], "Evaluator.member_dot(map with a string and an int key)", native=True))
    return cs


def tok(name):
    from pyvc.values import VTok
    return VTok(lark.Token, z3.StringVal(name), {"type": VStr(str, "IDENT"), "value": VStr(str, name), "line": VInt(int, 1), "column": VInt(int, 1)})


def call_contracts():
    """function_eval / method_eval: a function that raises anything of FUNCTION_ENVELOPE, or is not bound, gives an error value"""
    from contracts.evaluator_rules import sym_evaluator, install
    cs = []
    for form in ("function", "method"):
        for nargs in ((0, 1, 2) if form == "function" else (1, 2)):
            for fname in ("f", "nosuch"):
                args = [(f"a{i}", KINDS) for i in range(nargs)]

                def invoke(run, S, form=form, nargs=nargs, fname=fname):
                    install(run.engine)
                    install_abstract(run, lambda n: FUNCTION_ENVELOPE if n == "f" else DECLARED.get(n))
                    e = sym_evaluator(run)
                    vals = [getattr(S, f"a{i}") for i in range(nargs)]
                    if form == "function":
                        return run.call(run.getattr(e, "function_eval"), [tok(fname), VList(ct.ListType, vals)])
                    return run.call(run.getattr(e, "method_eval"), [vals[0], tok(fname), VList(ct.ListType, vals[1:])])
                cs.append(V.Contract(f"celpy.evaluation:Evaluator.{form}_eval", args, name=f"Evaluator.{form}_eval({fname}, {nargs} args)",
                                     invoke=invoke, ret=lambda S, r: True, exc={ev.CELEvalError: lambda S: True}, cover=False, native=False))
    # Evaluator.evaluate: an error value is raised as CELEvalError, everything else returned
    def invoke_eval(run, S):
        install(run.engine)
        e = sym_evaluator(run)
        e.attrs["ast"] = VObj(lark.Tree, {"data": VStr(str, "stub"), "children": VList(list, []), "$result": S.x}, label="stub:x")
        return run.call(run.getattr(e, "evaluate"), [])
    cs.append(V.Contract("celpy.evaluation:Evaluator.evaluate", [("x", KINDS)], name="Evaluator.evaluate", invoke=invoke_eval,
                         ret=lambda S, r: r is S.x and not is_error(S.x), exc={ev.CELEvalError: lambda S: is_error(S.x)}, cover=False, native=False))
    return cs


def parser_contract():
    """CELParser.parse: whatever lark's parser raises (its LALR front end raises UnexpectedToken / UnexpectedCharacters;
    LexError / ParseError are the documented base classes), the caller sees the tree or a CELParseError carrying lark's position."""
    import celpy.celparser as cp
    import lark.exceptions as LE
    cs = []
    for exc in (None, LE.UnexpectedToken, LE.UnexpectedCharacters, LE.LexError, LE.ParseError):
        def invoke(run, S, exc=exc):
            cp.CELParser()          # precondition: a parser object exists, so the class-level grammar is loaded

            def lark_parse(run, text, *a, **kw):
                if exc is None:
                    S.tree = VOpaque("tree")
                    return S.tree
                attrs = {"args": VTuple([VStr(str, z3.String("msg"))]), "line": S.line, "column": S.column}
                e = VObj(exc, attrs)
                raise se.PyRaise(e)
            run.engine.overrides[LE.UnexpectedInput.get_context] = lambda run, self, text, span=40: VStr(str, z3.String("context"))
            run.ghost["str_method"] = lambda run, name, self, args, kw: VList(list, [VStr(str, z3.String("first_line"))]) if name == "splitlines" else VStr(str, run.fresh("hv_s", z3.StringSort()))
            parser = VObj(lark.Lark, {"parse": VModel(lark_parse, "Lark.parse")}, label="lark")
            self_ = VObj(cp.CELParser, {"parser": parser}, label="celparser")
            return run.call(VNative(cp.CELParser.__dict__["parse"]), [self_, S.text])

        def on_error(S, exc=exc):
            return True
        cs.append(V.Contract("celpy.celparser:CELParser.parse", [("text", V.StrDom(str)), ("line", V.IntDom(int, 1, None, "line")), ("column", V.IntDom(int, 1, None, "column"))],
                             name=f"CELParser.parse(lark {'returns' if exc is None else 'raises ' + exc.__name__})", invoke=invoke,
                             ret=(lambda S, r: r is S.tree) if exc is None else None,
                             exc={} if exc is None else {cp.CELParseError: on_error}, cover=False, native=False))
    return cs


SCALARS = KINDS[:7]        # bool, int64, uint64, double, string, bytes, null


def operator_envelope_contracts():
    """layer 2, deductive part: the REAL implementation of every operator, executed symbolically on every pair of scalar
    kinds, raises nothing outside its declared envelope (what the rule methods of layer 1 are proved to convert)"""
    cs = []
    for name, fn in ev.base_functions.items():
        if name not in DECLARED or name in ("_||_", "_&&_", "_?_:_", "!_"):        # the logical functions have full contracts in C02
            continue
        arity = 1 if name == "-_" else 2
        second = SCALARS
        if name == "_in_":       # iterating a symbolic string / bytes container is outside the executor's subset: bounded grid only (props/c04.py)
            second = [k for k in SCALARS if k.label not in ("StringType", "BytesType")]
        args = [("a", SCALARS)] + ([("b", second)] if arity == 2 else [])
        exc = {c: (lambda S: True) for c in DECLARED[name]}
        cs.append(V.Contract(f"celpy.evaluation:base_functions", args, name=f"base_functions[{name!r}] envelope", cover=False,
                             invoke=(lambda run, S, fn=fn, arity=arity: run.call(VNative(fn), [S.a] + ([S.b] if arity == 2 else []))),
                             native=(lambda N, fn=fn, arity=arity: fn(N["a"], N["b"]) if arity == 2 else fn(N["a"])),
                             ret=lambda S, r: True, exc=exc))
    return cs


def function_envelope_contracts():
    """layer 2, deductive part for named functions: size and the string predicates (one and two scalar arguments) and the
    conversions (one scalar argument), real code, envelope FUNCTION_ENVELOPE"""
    cs = []
    exc = {c: (lambda S: True) for c in FUNCTION_ENVELOPE}
    one = ["size", "int", "uint", "double", "string", "bytes", "bool", "type"]
    two = ["contains", "startsWith", "endsWith", "size"]
    for name, arity in [(n, 1) for n in one] + [(n, 2) for n in two if n != "size"]:
        fn = ev.base_functions[name]
        args = [("a", SCALARS)] + ([("b", SCALARS)] if arity == 2 else [])
        cs.append(V.Contract("celpy.evaluation:base_functions", args, name=f"base_functions[{name!r}]/{arity} envelope", cover=False,
                             invoke=(lambda run, S, fn=fn, arity=arity: run.call(VNative(fn), [S.a] + ([S.b] if arity == 2 else []))),
                             native=(lambda N, fn=fn, arity=arity: fn(N["a"], N["b"]) if arity == 2 else fn(N["a"])),
                             ret=lambda S, r: True, exc=exc))
    return cs
