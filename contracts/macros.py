"""C02 (and C09): the all()/exists() macros as left folds over a list of unknown length.

The receiver is a symbolic list; `reduce(f, map(sub_expr, receiver), init)` in the real code is executed with the
inductive fold scheme of pyvc.models.b_reduce: the invariant below must hold for the initial accumulator and be
preserved by one more (arbitrary) element, for an arbitrary accumulator satisfying it.
Summary of a prefix = (some element gave false, some gave true, some gave an error, some gave a non-boolean).
"""
import z3

import celpy
import celpy.celtypes as ct
import celpy.evaluation as ev
from contracts.specs import *
from contracts.logic import OUTCOMES, BOOL, ERR, desc, ite, r_is_bool, r_is_err
from contracts.evaluator_rules import rule_contract, STUB, TOK, is_error
from contracts import templates as T
from pyvc import verify as V
from pyvc import symexec as se
from pyvc.values import VInt, VObj, VOpaque, VSymList, VModel, VStr, VTuple


def shape_of(text):
    """Shape (nested tuples / TOK) of the real parse tree of a CEL text."""
    celpy.CELParser.CEL_PARSER = None
    tree = celpy.CELParser().parse(text)
    celpy.CELParser.CEL_PARSER = None

    def conv(t):
        if isinstance(t, celpy.celparser.Token):
            return TOK(t.type, str(t))
        return (t.data, [conv(c) for c in t.children])
    return conv(tree)


def quant_spec(kind, sm, R):
    """all: false if some element is false, else error if some element is an error, else true.  exists: dual.
    A non-boolean element outcome leaves the result open (the statement does not fix it)."""
    hasF, hasT, hasE, hasN = sm
    decisive, neutral = (hasF, True) if kind == "all" else (hasT, False)
    body = ite(decisive, r_is_bool(R, not neutral) if False else r_is_bool(R, kind != "all"),
               ite(hasE, r_is_err(R), r_is_bool(R, kind == "all")))
    return ite(hasN, True, body)


class QuantInv:
    def __init__(self, kind):
        self.kind = kind

    def summary0(self):
        return (z3.BoolVal(False),) * 4

    def fresh(self, run):
        return tuple(run.fresh("sm", z3.BoolSort()) for _ in range(4))

    def holds(self, acc, sm):
        return quant_spec(self.kind, sm, desc(acc))

    def make_acc(self, run, sm):
        k = run.choose(len(OUTCOMES), "acc-kind")
        acc = OUTCOMES[k].make(run, f"acc{run.counter}")
        run.assume(self.holds(acc, sm))
        return acc

    def extend(self, sm, x):
        hasF, hasT, hasE, hasN = sm
        d = desc(x)
        if isinstance(d, tuple):
            return (z3.Or(hasF, z3.Not(d[1])), z3.Or(hasT, d[1]), hasE, hasN)
        if d == "E":
            return (hasF, hasT, z3.BoolVal(True), hasN)
        return (hasF, hasT, hasE, z3.BoolVal(True))


def arbitrary_outcome(run):
    k = run.choose(len(OUTCOMES), "body-outcome")
    return OUTCOMES[k].make(run, f"body{run.counter}")


def receiver_list(run, name):
    return VSymList(ct.ListType, lambda run: VOpaque("element"), "receiver")


RECEIVER = V.FnDom(receiver_list, "ListType[unknown length]")


def macro_shape(name):
    var = shape_of("x")
    return ("member_dot_arg", [STUB("recv"), TOK("IDENT", name), ("exprlist", [var, STUB("body")])])


def interpreter_contracts():
    cs = []
    for kind in ("all", "exists"):
        def setup(run, S, kind=kind):
            run.ghost["fold_inv"] = QuantInv(kind)
            S.body = arbitrary_outcome          # the macro body: a fresh arbitrary outcome at every evaluation

        def post(S, r, kind=kind):
            sm = S._run.ghost.get("fold_final_summary")
            if sm is None:
                return False
            return quant_spec(kind, sm, desc(r))
        c = rule_contract("member_dot_arg", macro_shape(kind), [("recv", RECEIVER)],
                          f"Evaluator.member_dot_arg[{kind}](list of unknown length)", post, cover=False)
        c.setup = setup
        c.native = False
        cs.append(c)
    # receiver is an error: the error is the result
    for kind in ("all", "exists"):
        c = rule_contract("member_dot_arg", macro_shape(kind), [("recv", ERR)],
                          f"Evaluator.member_dot_arg[{kind}](error receiver)", lambda S, r: r is S.recv, cover=False)
        c.setup = lambda run, S: setattr(S, "body", arbitrary_outcome)
        c.native = False
        cs.append(c)
    return cs


def compiled_contracts():
    """macro_all / macro_exists as called by the emitted code: cel_gen yields the receiver's elements, cel_expr is the
    body (returns an outcome or raises one of result()'s exceptions), both arbitrary."""
    cs = []
    for kind in ("all", "exists"):
        fn = getattr(ev, f"macro_{kind}")

        def invoke(run, S, fn=fn, kind=kind):
            run.ghost["fold_inv"] = QuantInv(kind)
            from contracts.evaluator_rules import sym_activation
            act = sym_activation(run)
            run.engine.overrides[ev.Activation.nested_activation] = lambda run, self, *a, **k: VObj(ev.Activation, {}, label="nested")
            recv = VSymList(ct.ListType, lambda run: VOpaque("element"), "receiver")
            cel_gen = VModel(lambda run, activation: recv, "cel_gen")

            def body(run, activation):
                k = run.choose(len(T.RESULT_EXCS) + 1, "body-kind")
                if k == 0:
                    return arbitrary_outcome(run)
                raise se.PyRaise(VObj(T.RESULT_EXCS[k - 1], {"args": VTuple([VStr(str, "hole")])}))
            cel_expr = VModel(body, "cel_expr")
            return run.call(se.VNative(fn), [act, VStr(str, "x"), cel_expr, cel_gen])

        def post(S, r, kind=kind):
            sm = S._run.ghost.get("fold_final_summary")
            if sm is None:
                return False
            return quant_spec(kind, sm, desc(r))
        def exc_ok(S, kind=kind):
            # An exception leaving macro_<kind> is turned into an error outcome by the enclosing result().
            g = S._run.ghost
            if "fold_step_summary" in g:
                # raised while folding: the rest of the list is unknown, so an error outcome is only acceptable
                # where the statement leaves the result open (a non-boolean element was already seen)
                return g["fold_step_summary"][3]
            sm = g.get("fold_final_summary")
            return False if sm is None else quant_spec(kind, sm, "E")
        c = V.Contract(f"celpy.evaluation:macro_{kind}", [], name=f"macro_{kind}(list of unknown length)",
                       invoke=invoke, ret=post,
                       exc={X: exc_ok for X in (TypeError, ValueError, OverflowError)},
                       cover=False, native=False)
        c.witnesses = [(w, (lambda w, want: lambda: run_compiled(w, want))(w, want)) for w, want in WITNESSES[kind]]
        cs.append(c)
    return cs


WITNESSES = {
    "all": [("[0, 0, 1].all(x, 1/x > 5)", False), ("[0, 1].all(x, 1/x > 5)", False), ("[1, 0, 0].all(x, 1/x > 5)", False),
            # a non-boolean outcome of every kind before / after the deciding element
            ("[7, false].all(x, x)", False), ("[false, 7].all(x, x)", False), ("[0.5, false].all(x, x)", False), ("[7u, false].all(x, x)", False),
            ("[[1], false].all(x, x)", False), ("[{1: 2}, false].all(x, x)", False), ("['s', false].all(x, x)", False), ("[null, false].all(x, x)", False),
            ("[true, 7, false, 7].all(x, x)", False), ("[true, true].all(x, x)", True), ("[].all(x, x)", True)],
    "exists": [("[0, 0, 1].exists(x, 1/x == 1)", True), ("[0, 1].exists(x, 1/x == 1)", True),
               ("[7, true].exists(x, x)", True), ("[true, 7].exists(x, x)", True), ("[0.5, true].exists(x, x)", True), ("[7u, true].exists(x, x)", True),
               ("[[1], true].exists(x, x)", True), ("[{1: 2}, true].exists(x, x)", True), ("['s', true].exists(x, x)", True), ("[null, true].exists(x, x)", True),
               ("[false, 7, true, 7].exists(x, x)", True), ("[false, false].exists(x, x)", False), ("[].exists(x, x)", False)],
}


def run_compiled(text, want):
    celpy.CELParser.CEL_PARSER = None
    try:
        env = celpy.Environment(runner_class=celpy.CompiledRunner)
        prog = env.program(env.compile(text))
        try:
            got = prog.evaluate({})
            return (isinstance(got, ct.BoolType) and bool(got) == want), f"CompiledRunner: {text} -> {got!r}, expected {want}"
        except ev.CELEvalError as ex:
            return False, f"CompiledRunner: {text} -> evaluation error {ex.args[:1]}, expected {want}"
    finally:
        celpy.CELParser.CEL_PARSER = None


def summary_lemmas(rep):
    """The fold step table is the order-independent characterisation: extending the summary by one element and
    re-reading the specification equals one application of the absorbing operator to the specified outcomes."""
    from contracts.logic import and_spec, or_spec
    hs = z3.Bools("hasF hasT hasE")
    xb = z3.Bool("x_b")
    rb = z3.Bool("r_b")
    for kind, spec in (("all", and_spec), ("exists", or_spec)):
        for xk in ("B", "E"):
            X = ("B", xb) if xk == "B" else "E"
            for ak in ("B", "E"):
                for R in (("B", rb), "E"):
                    sm = (hs[0], hs[1], hs[2], z3.BoolVal(False))
                    ab = z3.Bool("acc_b")
                    A = ("B", ab) if ak == "B" else "E"
                    inv = quant_spec(kind, sm, A)
                    if xk == "B":
                        sm2 = (z3.Or(hs[0], z3.Not(xb)), z3.Or(hs[1], xb), hs[2], z3.BoolVal(False))
                    else:
                        sm2 = (hs[0], hs[1], z3.BoolVal(True), z3.BoolVal(False))
                    step = spec(A, X, R)
                    goal = quant_spec(kind, sm2, R)
                    mk = lambda f: z3.BoolVal(f) if isinstance(f, bool) else f
                    V.lemma(rep, f"lemma:{kind}-fold-step[acc={ak},x={xk},r={'B' if isinstance(R, tuple) else R}]", "spec",
                            f"Inv(acc, prefix) and {kind}-operator table(acc, x, r) imply Inv(r, prefix+[x])",
                            [mk(inv), mk(step)], mk(goal))
