"""The compiled runner's generated code under contract.

The text is not copied by hand: the real Phase1Transpiler / Phase2Transpiler are run natively on a mock node whose
children are stub trees with `transpiled = "hole_<name>(activation)"`; the emitted program (the statements plus the
final `CEL = result(base_activation, ...)`) is then parsed with `ast` and executed symbolically like any other code,
with `hole_<name>` an arbitrary sub-expression: a callable that returns a value of some class or raises an exception.
"""
import ast

import lark
import z3

import celpy.celtypes as ct
import celpy.evaluation as ev
from contracts.specs import *
from pyvc import verify as V
from pyvc import symexec as se
from pyvc.values import VInt, VObj, VModel, VStr, VTuple, VNative, NONE


class HOLE:
    """a child sub-expression; `ref=True`: the child is itself a statement construct, i.e. its text is a reference
    `ex_<n>(activation)` to a generated lambda (||, &&, ?:, has(), a macro) rather than an inline expression"""

    def __init__(self, arg, ref=False):
        self.arg = arg
        self.ref = ref


class TOK:
    def __init__(self, type_, value):
        self.type, self.value = type_, value


_REFNUM = {}


def refname(arg):
    """the name a generated lambda would have: ex_<number> (numbers far above any the transpiler assigns to a mock node)"""
    if arg not in _REFNUM:
        _REFNUM[arg] = 9001 + len(_REFNUM)
    return f"ex_{_REFNUM[arg]}"


def nat_ttree(shape):
    if isinstance(shape, HOLE):
        t = ev.TranspilerTree("stub", [])
        t.transpiled = f"{refname(shape.arg)}(activation)" if getattr(shape, "ref", False) else f"hole_{shape.arg}(activation)"
        return t
    if isinstance(shape, TOK):
        return lark.Token(shape.type, shape.value)
    data, children = shape
    return ev.TranspilerTree(data, [nat_ttree(c) for c in children])


def emit(shape, functions=None):
    """Run the real two-phase transpiler on the mock node; returns the program text."""
    tree = nat_ttree(shape)
    facade = ev.Transpiler(ast=tree, activation=ev.Activation(functions=functions))
    ev.Phase1Transpiler(facade).visit(tree)
    p2 = ev.Phase2Transpiler(facade)
    p2.visit(tree)
    return "\n".join(p2.statements(tree))


class HoleDom(V.Dom):
    """A sub-expression: returns a value from `dom`, or raises `exc`."""

    def __init__(self, dom=None, exc=None):
        self.dom, self.exc = dom, exc
        self.label = f"returns {dom.label}" if dom is not None else f"raises {exc.__name__}"

    def make(self, run, name):
        if self.dom is not None:
            v = self.dom.make(run, name + ".v")
            return VModel(lambda run, activation: v, f"hole:{name}", meta=("ret", v))
        exc = self.exc

        def thrower(run, activation):
            raise se.PyRaise(VObj(exc, {"args": VTuple([VStr(str, "hole")])}))
        return VModel(thrower, f"hole:{name}", meta=("raise", exc))


def _native_hole(v, m):
    kind, x = v.meta
    if kind == "ret":
        val = V.conc_under(x, m)
        return lambda activation: val

    def f(activation):
        raise x("hole")
    return f


V.NATIVE_BUILDERS[VModel] = _native_hole

RESULT_EXCS = [ValueError, KeyError, TypeError, ZeroDivisionError, OverflowError, IndexError, NameError]


def hole_outcomes(value_doms, excs=RESULT_EXCS):
    return [HoleDom(dom=d) for d in value_doms] + [HoleDom(exc=x) for x in excs]


def hole_desc(h):
    from contracts.logic import desc
    kind, x = h.meta
    return desc(x) if kind == "ret" else "E"


def template_contract(name, shape, args, ret, target, functions=None, **kw):
    text = emit(shape, functions)
    tree = ast.parse(text)

    def invoke(run, S):
        from contracts.evaluator_rules import sym_activation
        vars_ = {f"hole_{n}": getattr(S, n) for n, _ in args}
        vars_.update({refname(n): getattr(S, n) for n, _ in args})
        vars_["base_activation"] = sym_activation(run, functions)
        env = se.Env(vars_, None, ev.__dict__)
        run.exec_block(tree.body, env)
        return env.vars["CEL"]

    def native(N):
        g = dict(ev.__dict__)
        for n, _ in args:
            g[f"hole_{n}"] = N[n]
            g[refname(n)] = N[n]
        g["base_activation"] = ev.Activation(functions=functions)
        exec(compile(text, "<emitted>", "exec"), g)
        return g["CEL"]

    c = V.Contract(target, args, name=name, invoke=invoke, native=native, ret=ret, exc={}, note=text, **kw)
    c.emitted = text
    return c


def c02_template_contracts():
    from contracts.logic import OUTCOMES, BOOL, ERR, NONBOOL, and_spec, or_spec, not_spec, desc, r_is_err, ite
    H = hole_outcomes(OUTCOMES)
    P1 = "celpy.evaluation:Phase1Transpiler."
    cs = [
        template_contract("emitted[conditionalor](x || y)", ("conditionalor", [HOLE("x"), HOLE("y")]),
                          [("x", H), ("y", H)],
                          lambda S, r: or_spec(hole_desc(S.x), hole_desc(S.y), desc(r)), P1 + "conditionalor", cover=False),
        template_contract("emitted[conditionaland](x && y)", ("conditionaland", [HOLE("x"), HOLE("y")]),
                          [("x", H), ("y", H)],
                          lambda S, r: and_spec(hole_desc(S.x), hole_desc(S.y), desc(r)), P1 + "conditionaland", cover=False),
        template_contract("emitted[unary_not](!x)", ("unary", [("unary_not", []), HOLE("x")]), [("x", H)],
                          lambda S, r: not_spec(hole_desc(S.x), desc(r)), P1 + "unary", cover=False),
    ]

    def cond_post(S, r):
        c = hole_desc(S.c)
        if not isinstance(c, tuple):
            return r_is_err(desc(r))

        def same(h):
            kind, x = h.meta
            return (r is x) if kind == "ret" else r_is_err(desc(r))
        return ite(c[1], same(S.l), same(S.r))
    cs.append(template_contract("emitted[expr](c ? l : r)", ("expr", [HOLE("c"), HOLE("l"), HOLE("r")]),
                                [("c", H), ("l", H), ("r", H)], cond_post, P1 + "expr", cover=False, max_paths=20000))
    # the same templates when the operands are themselves statement constructs (their text is `ex_<n>(activation)`): the
    # operand must still be evaluated under result() - an operator that looks at the operand's text is caught here
    HS = [HoleDom(dom=BOOL), HoleDom(dom=ERR), HoleDom(dom=NONBOOL[0]), HoleDom(exc=TypeError), HoleDom(exc=ZeroDivisionError)]
    cs += [
        template_contract("emitted[conditionalor](x || y), operands are generated lambdas", ("conditionalor", [HOLE("x", True), HOLE("y", True)]),
                          [("x", HS), ("y", HS)], lambda S, r: or_spec(hole_desc(S.x), hole_desc(S.y), desc(r)), P1 + "conditionalor", cover=False),
        template_contract("emitted[conditionaland](x && y), operands are generated lambdas", ("conditionaland", [HOLE("x", True), HOLE("y", True)]),
                          [("x", HS), ("y", HS)], lambda S, r: and_spec(hole_desc(S.x), hole_desc(S.y), desc(r)), P1 + "conditionaland", cover=False),
        template_contract("emitted[expr](c ? l : r), operands are generated lambdas", ("expr", [HOLE("c", True), HOLE("l", True), HOLE("r", True)]),
                          [("c", HS), ("l", HS), ("r", HS)], cond_post, P1 + "expr", cover=False),
        template_contract("emitted[unary_not](!x), operand is a generated lambda", ("unary", [("unary_not", []), HOLE("x", True)]), [("x", HS)],
                          lambda S, r: not_spec(hole_desc(S.x), desc(r)), P1 + "unary", cover=False),
    ]
    return cs
