"""C03: per-construct simulation contracts between the interpreter's rule methods and the transpiler's emitted code.

Induction hypothesis on a child e (paired outcomes):
    value      - both runners computed the same value v (one symbolic object)
    raises X   - the interpreter holds an error VALUE, the compiled sub-expression RAISES X, X a class result() converts
    error value- the interpreter holds an error value, the compiled sub-expression RETURNS an error value (it came out of a
                 nested result(): ||, &&, ?:, a macro)
Obligation for the construct (both sides executed symbolically: the real Evaluator method on a mock node, the text the real
Phase1/Phase2 transpiler emits for the same node, evaluated WITHOUT the outermost result()):
    S1  the emitted expression returns, or raises a class that result() converts (so every enclosing result() - the top
        level, a short-circuit operand, a macro body, has() - sees the same thing the interpreter's error value means)
    S2  the interpreter's outcome is an error  <=>  the compiled outcome is an error value or a raise
    S3  both values  =>  the same value (the same object / same class and payload)
The operator and function implementations are ABSTRACT and shared: one deterministic function per name (memo on the
identity of the arguments) that returns an opaque value or raises a class of its declared envelope (contracts/c04_rules.py);
with an error-value argument the REAL implementation runs (CELEvalError's own operator methods).  The logical operators
(||, &&, ?:, !) always run their real code.  result() itself has its own contract (props/c03.py).
"""
import ast

import lark
import z3

import celpy.celtypes as ct
import celpy.evaluation as ev
from contracts import c04_rules as R4
from contracts.evaluator_rules import sym_tree, sym_evaluator, install, STUB, is_error
from contracts import templates as T
from pyvc import verify as V
from pyvc import symexec as se
from pyvc.values import VInt, VObj, VList, VTuple, VStr, VDict, VModel, VOpaque, VNative, NONE


class SubValueError(ValueError):
    """stands for every subclass of a listed exception (a date parser's error, UnicodeDecodeError ...)"""


class AbstractValue:
    """the result of an abstract operator or function when it is not a BoolType"""


CONVERTIBLE = (TypeError, ValueError, SubValueError, KeyError, ZeroDivisionError, OverflowError, IndexError, AttributeError, NameError)
REAL = {"_||_", "_&&_", "_?_:_", "!_"}


class Pair:
    def __init__(self, kind, i, c, label):
        self.kind, self.i, self.c, self.label = kind, i, c, label


class PairDom(V.Dom):
    def __init__(self, kind, dom=None, exc=None):
        self.kind, self.dom, self.exc = kind, dom, exc
        self.label = {"value": lambda: dom.label, "raise": lambda: "raises " + exc.__name__, "errval": lambda: "error value"}[kind]()

    def make(self, run, name):
        if self.kind == "value":
            v = self.dom.make(run, name + ".v")
            return Pair("value", v, VModel(lambda run, activation: v, f"hole:{name}"), self.label)
        ei = VObj(ev.CELEvalError, {"args": VTuple([])}, label=f"{name}:interpreter error")
        if self.kind == "raise":
            exc = self.exc

            def thrower(run, activation):
                raise se.PyRaise(VObj(exc, {"args": VTuple([VStr(str, "hole")])}))
            return Pair("raise", ei, VModel(thrower, f"hole:{name}"), self.label)
        ec = VObj(ev.CELEvalError, {"args": VTuple([])}, label=f"{name}:compiled error value")
        return Pair("errval", ei, VModel(lambda run, activation: ec, f"hole:{name}"), self.label)


VALUE_KINDS = [d for d in R4.KINDS if d is not R4.ERR]
CHILD = [PairDom("value", d) for d in VALUE_KINDS] + [PairDom("raise", exc=x) for x in CONVERTIBLE] + [PairDom("errval")]
CHILD_SMALL = [PairDom("value", R4.KINDS[1]), PairDom("value", R4.KINDS[0]), PairDom("raise", exc=ZeroDivisionError), PairDom("raise", exc=SubValueError), PairDom("errval")]


def envelope_of(fn):
    for name, f in ev.base_functions.items():
        if f is fn:
            return name, R4.DECLARED.get(name, R4.FUNCTION_ENVELOPE)
    return getattr(fn, "__name__", "?"), R4.FUNCTION_ENVELOPE


def argkey(a):
    """arguments are the same when they are the same object, or scalars of one class with the same term"""
    t = getattr(a, "t", None)
    if t is not None and hasattr(a, "cls") and not isinstance(t, (str, bytes, int, float)):
        return (a.cls.__name__, z3.simplify(t).get_id())
    if isinstance(a, VList):
        return (a.cls.__name__, tuple(argkey(x) for x in a.items))
    if isinstance(a, VDict):
        return (a.cls.__name__, tuple((argkey(k), argkey(v)) for k, v in a.pairs))
    return id(a)


def install_shared_abstract(run):
    memo = run.ghost.setdefault("absfun", {})
    for name, fn in ev.base_functions.items():
        if name in REAL or isinstance(fn, type):
            continue

        def model(run, *args, _fn=fn, _name=name, **kw):
            if any(is_error(a) for a in args):
                ov = run.engine.overrides.pop(_fn)
                try:
                    return run._call(VNative(_fn), list(args), kw)
                finally:
                    run.engine.overrides[_fn] = ov
            key = (_name, tuple(argkey(a) for a in args))
            if key not in memo:
                env = R4.DECLARED.get(_name, R4.FUNCTION_ENVELOPE)
                i = run.choose(len(env) + 2, f"outcome_{_name}")
                if i == len(env):
                    memo[key] = ("ret", VObj(AbstractValue, {}, label=f"{_name}{key[1]}"))       # some value that is not a BoolType
                elif i == len(env) + 1:
                    b = run.fresh(f"bool_{_name}", z3.IntSort())
                    run.assume(z3.Or(b == 0, b == 1))
                    memo[key] = ("ret", VInt(ct.BoolType, b))
                else:
                    memo[key] = ("raise", env[i])
                run.ghost.setdefault("keepalive", []).append(args)
            kind, x = memo[key]
            if kind == "ret":
                return x
            run.throw(x, f"abstract {_name}")
        run.engine.overrides[fn] = model


def sim_contract(name, ishape, cshape, args, method, functions=None, target=None):
    text = T.emit(cshape, functions)
    tree = ast.parse(text)
    last = tree.body[-1]
    assert isinstance(last, ast.Assign) and last.targets[0].id == "CEL", text
    inner = last.value.args[1]          # CEL = celpy.evaluation.result(base_activation, <inner>)

    def invoke(run, S):
        install(run.engine)
        install_shared_abstract(run)
        from contracts.evaluator_rules import sym_activation
        # interpreter
        SI = V.S({n: getattr(S, n).i for n, _ in args})
        e = sym_evaluator(run, functions)
        itree = sym_tree(run, ishape, SI)
        try:
            ri = ("ret", run.call(run.getattr(e, method), [itree]))
        except se.PyRaise as ex:
            ri = ("raise", ex.exc.cls if hasattr(ex, "exc") else ex.args[0].cls)
        # compiled: the statements, then the inner expression applied to the activation (no outermost result())
        vars_ = {f"hole_{n}": getattr(S, n).c for n, _ in args}
        act = sym_activation(run, functions)
        vars_["base_activation"] = act
        env = se.Env(vars_, None, ev.__dict__)
        run.exec_block(tree.body[:-1], env)
        try:
            f = run.eval(inner, env)
            rc = ("ret", run.call(f, [act]))
        except se.PyRaise as ex:
            rc = ("raise", ex.exc.cls if hasattr(ex, "exc") else ex.args[0].cls)
        S.ri, S.rc = ri, rc
        return NONE

    def post(S, r):
        (ki, vi), (kc, vc) = S.ri, S.rc
        if ki == "raise":
            if not issubclass(vi, ev.CELEvalError):
                return False            # the interpreter let something else escape (C04)
            i_err = True
        else:
            i_err = is_error(vi)
        if kc == "raise":
            if not issubclass(vc, CONVERTIBLE + (ev.CELEvalError,)):
                return False            # S1
            c_err = True
        else:
            c_err = is_error(vc)
        if i_err != c_err:
            return False                # S2
        if i_err:
            return True
        return same_value(vi, vc)       # S3
    c = V.Contract(target or f"celpy.evaluation:Evaluator.{method}", args, name=name, invoke=invoke, native=False, ret=post, exc={}, cover=False, note=text)
    c.emitted = text
    return c


def same_value(a, b):
    if a is b:
        return True
    if type(a) is not type(b):
        return False
    if isinstance(a, VInt):
        return a.cls is b.cls and (a.t == b.t)
    if isinstance(a, VList) and isinstance(b, VList):
        return a.cls is b.cls and len(a.items) == len(b.items) and z3.And([z3.BoolVal(True)] + [_z(same_value(x, y)) for x, y in zip(a.items, b.items)])
    if isinstance(a, VDict) and isinstance(b, VDict):
        return a.cls is b.cls and len(a.pairs) == len(b.pairs) and z3.And([z3.BoolVal(True)] + [z3.And(_z(same_value(k1, k2)), _z(same_value(v1, v2))) for (k1, v1), (k2, v2) in zip(a.pairs, b.pairs)])
    return False


def _z(x):
    return z3.BoolVal(x) if isinstance(x, bool) else x


HOLE, TOK = T.HOLE, T.TOK


def contracts():
    from contracts.evaluator_rules import TOK as ITOK
    cs = []
    two = [("x", CHILD), ("y", CHILD)]
    binops = [("relation", "relation_lt"), ("relation", "relation_le"), ("relation", "relation_gt"), ("relation", "relation_ge"), ("relation", "relation_eq"),
              ("relation", "relation_ne"), ("relation", "relation_in"), ("addition", "addition_add"), ("addition", "addition_sub"),
              ("multiplication", "multiplication_mul"), ("multiplication", "multiplication_div"), ("multiplication", "multiplication_mod")]
    for rule, op in binops:
        cs.append(sim_contract(f"sim[{op}](x, y)", (rule, [(op, [STUB("x")]), STUB("y")]), (rule, [(op, [HOLE("x")]), HOLE("y")]), two, rule))
    for op in ("unary_not", "unary_neg"):
        cs.append(sim_contract(f"sim[{op}](x)", ("unary", [(op, []), STUB("x")]), ("unary", [(op, []), HOLE("x")]), [("x", CHILD)], "unary"))
    cs.append(sim_contract("sim[member_index](x[y])", ("member_index", [STUB("x"), STUB("y")]), ("member_index", [HOLE("x"), HOLE("y")]), two, "member_index"))
    cs.append(sim_contract("sim[conditionalor](x || y)", ("conditionalor", [STUB("x"), STUB("y")]), ("conditionalor", [HOLE("x"), HOLE("y")]), two, "conditionalor"))
    cs.append(sim_contract("sim[conditionaland](x && y)", ("conditionaland", [STUB("x"), STUB("y")]), ("conditionaland", [HOLE("x"), HOLE("y")]), two, "conditionaland"))
    cs.append(sim_contract("sim[expr](c ? x : y)", ("expr", [STUB("c"), STUB("x"), STUB("y")]), ("expr", [HOLE("c"), HOLE("x"), HOLE("y")]),
                           [("c", CHILD), ("x", CHILD_SMALL), ("y", CHILD_SMALL)], "expr"))
    # calls: a bound built-in (abstract, shared), an unbound name, a method
    for fname in ("size", "nosuch"):
        for nargs in (1, 2):
            names = ["x", "y"][:nargs]
            cs.append(sim_contract(f"sim[call {fname}/{nargs}]", ("primary", [("ident_arg", [ITOK("IDENT", fname), ("exprlist", [STUB(n) for n in names])])]),
                                   ("primary", [("ident_arg", [TOK("IDENT", fname), ("exprlist", [HOLE(n) for n in names])])]), [(n, CHILD) for n in names], "primary"))
    for fname in ("contains", "nosuch"):
        cs.append(sim_contract(f"sim[method {fname}]", ("member_dot_arg", [STUB("x"), ITOK("IDENT", fname), ("exprlist", [STUB("y")])]),
                               ("member_dot_arg", [HOLE("x"), TOK("IDENT", fname), ("exprlist", [HOLE("y")])]), two, "member_dot_arg"))
    cs.append(sim_contract("sim[method size/0]", ("member_dot_arg", [STUB("x"), ITOK("IDENT", "size")]), ("member_dot_arg", [HOLE("x"), TOK("IDENT", "size")]), [("x", CHILD)], "member_dot_arg"))
    # literals of containers
    cs.append(sim_contract("sim[list literal]", ("primary", [("list_lit", [("exprlist", [STUB("x"), STUB("y")])])]), ("primary", [("list_lit", [("exprlist", [HOLE("x"), HOLE("y")])])]), two, "primary"))
    cs.append(sim_contract("sim[map literal]", ("primary", [("map_lit", [("mapinits", [STUB("x"), STUB("y")])])]), ("primary", [("map_lit", [("mapinits", [HOLE("x"), HOLE("y")])])]),
                           [("x", [PairDom("value", R4.KINDS[1]), PairDom("value", R4.KINDS[4]), PairDom("value", R4.KINDS[3]), PairDom("value", R4.KINDS[7]), PairDom("raise", exc=TypeError), PairDom("errval")]), ("y", CHILD)], "primary"))
    # field selection and has()
    cs.append(sim_contract("sim[member_dot](x.f)", ("member_dot", [STUB("x"), ITOK("IDENT", "f")]), ("member_dot", [HOLE("x"), TOK("IDENT", "f")]), [("x", CHILD)], "member_dot"))
    # ... on a map with one entry: the key is / is not the selected name, the entry's value is of any kind (null included)
    for key in ("f", "g"):
        doms = [PairDom("value", V.FnDom(lambda run, name, d=d, key=key: VDict(ct.MapType, [[VStr(ct.StringType, key), d.make(run, name + ".e")]]), f"MapType{{{key!r}: {d.label}}}"))
                for d in VALUE_KINDS]
        cs.append(sim_contract(f"sim[member_dot](map with key {key!r}).f", ("member_dot", [STUB("x"), ITOK("IDENT", "f")]), ("member_dot", [HOLE("x"), TOK("IDENT", "f")]), [("x", doms)], "member_dot"))
    return cs


def result_contracts():
    """result(): a value passes through unchanged; every convertible exception class (also a subclass, also raised without
    arguments) comes back as an error VALUE - nothing is raised"""
    cs = []
    fn = ev.result

    class Bare:          # marker: raise the class without arguments
        pass
    for kind, x in [("value", None)] + [("raise", c) for c in CONVERTIBLE] + [("raise-bare", c) for c in (TypeError, ValueError, KeyError, NameError, AttributeError)]:
        def invoke(run, S, kind=kind, x=x):
            from contracts.evaluator_rules import sym_activation
            S.v = VOpaque("sub-expression value")

            def hole(run, activation):
                if kind == "value":
                    return S.v
                args = VTuple([VStr(str, "detail")]) if kind == "raise" else VTuple([])
                raise se.PyRaise(VObj(x, {"args": args}))
            run.engine.overrides[ev.CELEvalError.with_traceback] = lambda run, self, tb: self
            return run.call(VNative(fn), [sym_activation(run), VModel(hole, "cel_expr")])
        cs.append(V.Contract("celpy.evaluation:result", [], name=f"result({kind}{'' if x is None else ' ' + x.__name__})", invoke=invoke, native=False,
                             ret=(lambda S, r: r is S.v) if kind == "value" else (lambda S, r: is_error(r)), exc={}, cover=False))
    return cs


def same_callable_table(rep):
    """the operator / function objects the emitted code calls are the ones the interpreter resolves by name"""
    import celpy
    celpy.CELParser.CEL_PARSER = None
    env = celpy.Environment(runner_class=celpy.CompiledRunner)
    table = {"_+_": "a + b", "_-_": "a - b", "_*_": "a * b", "_/_": "a / b", "_%_": "a % b", "_<_": "a < b", "_<=_": "a <= b", "_>_": "a > b", "_>=_": "a >= b",
             "_==_": "a == b", "_!=_": "a != b", "_in_": "a in b", "-_": "-a", "!_": "!a", "_[_]": "a[b]", "size": "size(a)", "contains": "a.contains(b)",
             "startsWith": "a.startsWith(b)", "endsWith": "a.endsWith(b)", "matches": "a.matches(b)", "getDate": "a.getDate()", "getHours": "a.getHours(b)",
             "int": "int(a)", "uint": "uint(a)", "double": "double(a)", "string": "string(a)", "bytes": "bytes(a)", "bool": "bool(a)", "timestamp": "timestamp(a)",
             "duration": "duration(a)", "type": "type(a)"}
    for name, text in table.items():
        src = env.program(env.compile(text)).tp.source_text
        tree = ast.parse(src)
        call = tree.body[-1].value.args[1].body
        g = dict(ev.__dict__)
        try:
            callee = eval(compile(ast.Expression(call.func), "<emitted>", "eval"), g, {"activation": ev.Activation()})
        except Exception as ex:
            callee = ex
        ok = callee is ev.base_functions[name]
        V.table_obl(rep, f"E:same-callable[{name}]", "celpy.evaluation:Phase1Transpiler", f"the code emitted for `{text}` calls base_functions[{name!r}]", ok,
                    f"input: {text!r} -> {ast.unparse(call.func)} is {callee!r}")


# ---------------------------------------------------------------------------------------------- depth 2: compositionality
def _constructs():
    """name -> (method of the outer node, builder(child shape, leaf constructor, token constructor), extra leaf names)"""
    def un(op):
        return lambda c, L, K: ("unary", [(op, []), c])

    def binl(rule, op):
        return lambda c, L, K: (rule, [(op, [c]), L("y")])

    def binr(rule, op):
        return lambda c, L, K: (rule, [(op, [L("y")]), c])
    return {
        "neg": ("unary", un("unary_neg"), []), "not": ("unary", un("unary_not"), []),
        "add_l": ("addition", binl("addition", "addition_add"), ["y"]), "sub_r": ("addition", binr("addition", "addition_sub"), ["y"]),
        "div_l": ("multiplication", binl("multiplication", "multiplication_div"), ["y"]), "mod_r": ("multiplication", binr("multiplication", "multiplication_mod"), ["y"]),
        "lt_l": ("relation", binl("relation", "relation_lt"), ["y"]), "eq_r": ("relation", binr("relation", "relation_eq"), ["y"]), "in_l": ("relation", binl("relation", "relation_in"), ["y"]),
        "index": ("member_index", lambda c, L, K: ("member_index", [c, L("y")]), ["y"]),
        "dot": ("member_dot", lambda c, L, K: ("member_dot", [c, K("IDENT", "f")]), []),
        "call": ("primary", lambda c, L, K: ("primary", [("ident_arg", [K("IDENT", "size"), ("exprlist", [c])])]), []),
        "method": ("member_dot_arg", lambda c, L, K: ("member_dot_arg", [c, K("IDENT", "contains"), ("exprlist", [L("y")])]), ["y"]),
        "list": ("primary", lambda c, L, K: ("primary", [("list_lit", [("exprlist", [c])])]), []),
        "paren": ("primary", lambda c, L, K: ("primary", [("paren_expr", [c])]), []),
        "or_l": ("conditionalor", lambda c, L, K: ("conditionalor", [c, L("y")]), ["y"]), "and_r": ("conditionaland", lambda c, L, K: ("conditionaland", [L("y"), c]), ["y"]),
        "tern_c": ("expr", lambda c, L, K: ("expr", [c, L("y"), L("z")]), ["y", "z"]), "tern_l": ("expr", lambda c, L, K: ("expr", [L("y"), c, L("z")]), ["y", "z"]),
    }


def nested_contracts():
    """outer(inner(x)) for every ordered pair of constructs: the emitted text of a node is checked in composition, so a
    template that looks INTO its child (folding, reordering, dropping a sub-expression) is caught"""
    from contracts.evaluator_rules import TOK as ITOK
    C = _constructs()
    cs = []
    leafdoms = {"x": CHILD_SMALL, "y": [PairDom("value", R4.KINDS[1]), PairDom("value", R4.KINDS[0]), PairDom("raise", exc=ZeroDivisionError)], "z": [PairDom("value", R4.KINDS[1])]}
    for on, (om, ob, ol) in C.items():
        for inn, (im, ib, il) in C.items():
            def rename(names, suffix):
                return {n: n + suffix for n in names}
            # the inner construct's extra leaves get their own names
            imap = rename(il, "i")

            def ishape(leaf, tokc, imap=imap, ib=ib, ob=ob):
                inner = ib(leaf("x"), lambda n: leaf(imap[n]), tokc)
                return ob(inner, leaf, tokc)
            args = [("x", leafdoms["x"])] + [(n, leafdoms[n]) for n in ol] + [(imap[n], leafdoms[n]) for n in il]
            # keep the case product small: at most one leaf besides x ranges over more than one outcome
            wide = 0
            a2 = []
            for n, d in args:
                if n != "x" and len(d) > 1:
                    wide += 1
                    if wide > 1:
                        d = d[:1]
                a2.append((n, d))
            cs.append(sim_contract(f"sim2[{on}({inn}(x))]", ishape(STUB, ITOK), ishape(HOLE, TOK), a2, om))
    return cs
