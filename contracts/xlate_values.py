def contracts_into(rep, known):
    pass
