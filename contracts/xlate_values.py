"""C19: seconds_to_duration decomposes every non-negative count into d/h/m/s components that sum back to it.

The loop over the literal unit list is unrolled (complete: four units).  Each component text f"{value}{unit}" is
recorded in a ghost log (value term, unit); the postcondition is over that log: the components are positive, use
distinct units in decreasing order and  sum(value_i * seconds(unit_i)) == seconds; for 0 the literal is "0s".
That the rendered text denotes this sum relies on f-string rendering of ints, str.join, q() being the identity on
digit/unit text (bounded check in props/c19.py) and the duration parser (C11)."""
import z3

import xlate.c7n_to_cel as X
from pyvc import verify as V
from pyvc import symexec as se
from pyvc.parallel import run_contracts
from pyvc.values import VInt, VStr, VNative

R = X.C7N_Rewriter
SCALE = {"d": 86400, "h": 3600, "m": 60, "s": 1}


def contracts():
    fn = R.__dict__["seconds_to_duration"].__func__

    def invoke(run, S):
        # the text-level helpers are applied to opaque component strings: abstract q() to "some string"
        run.engine.overrides[R.__dict__["q"].__func__] = lambda run, text, quote=None: VStr(str, run.fresh("hv_q", z3.StringSort()))
        run.ghost["str_method"] = lambda run, name, self, args, kw: VStr(str, run.fresh("hv_join", z3.StringSort()))
        S.joined = []
        run.ghost["join_log"] = S.joined
        return run.call(VNative(fn), [S.period])

    def post(S, r):
        parts = []
        for out, raw in S._run.ghost.get("fstrings", []):
            if len(raw) == 2 and isinstance(raw[0], VInt) and isinstance(raw[1], VStr):
                parts.append((raw[0].t, se.conc(raw[1])))
        n = S.period.t
        if not parts:
            return n == 0      # (the "0s" literal path)
        units = [u for _, u in parts]
        order_ok = units == sorted(set(units), key=lambda u: -SCALE[u]) and all(u in SCALE for u in units)
        total = sum(v * SCALE[u] for v, u in parts)
        return z3.And(z3.BoolVal(order_ok), total == n, *[v > 0 for v, _ in parts])
    return [V.Contract("xlate.c7n_to_cel:C7N_Rewriter.seconds_to_duration",
                       [("period", V.IntDom(int, 0, 2 ** 53, "0 <= seconds < 2**53"))], invoke=invoke,
                       native=lambda N: R.seconds_to_duration(N["period"]), ret=post, exc={}, cover=False)]


def contracts_into(rep, known):
    run_contracts(contracts(), rep, known=known)
