"""Spec functions used by the contracts.  They are characterisations taken from the property
statements (DESIGN.md Appendix A), written over z3 terms; with concrete arguments they simplify to
constants, which is how the same clause is evaluated on a native replay."""
import z3
from pyvc.values import VInt, VFloat, VStr, VBytes, VNone, VObj, VList, VDict, VNative, FP, RNE

I64_MIN, I64_MAX1 = -(2 ** 63), 2 ** 63
U64_MAX1 = 2 ** 64


def in_i64(t):
    return z3.And(t >= I64_MIN, t < I64_MAX1)


def in_u64(t):
    return z3.And(t >= 0, t < U64_MAX1)


def zabs(t):
    return z3.If(t < 0, -t, t)


def tdiv_rel(a, b, q):
    """q is the quotient of a by b truncated toward zero (b != 0):
    a = q*b + r with |r| < |b| and r = 0 or sign(r) = sign(a)."""
    r = a - q * b
    return z3.And(b != 0, zabs(r) < zabs(b), z3.Or(r == 0, (r < 0) == (a < 0)))


def tmod_rel(a, b, m, k):
    """m is the remainder of a by b with the sign of the dividend; k is the (existential) quotient witness."""
    return z3.And(b != 0, a == k * b + m, zabs(m) < zabs(b), z3.Or(m == 0, (m < 0) == (a < 0)))


def is_int(r, cls, term):
    """r is an instance of exactly `cls` carrying the mathematical integer `term`."""
    if not isinstance(r, VInt) or r.cls is not cls:
        return False
    return r.t == term


def is_float(r, cls, term):
    """r is exactly `cls` and IEEE-equal to term as a datum (NaN ~ NaN, -0.0 distinguished from +0.0)."""
    if not isinstance(r, VFloat) or r.cls is not cls:
        return False
    return z3.Or(z3.And(z3.fpIsNaN(r.t), z3.fpIsNaN(term)), r.t == term)


def is_bool(r, cls, cond):
    if not isinstance(r, VInt) or r.cls is not cls:
        return False
    if isinstance(cond, bool):
        return r.t == (1 if cond else 0)
    return z3.And(z3.Or(r.t == 0, r.t == 1), (r.t == 1) == cond)


def same_object(r, x):
    return r is x
