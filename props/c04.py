"""C04 - evaluation ends in a value or a CEL error, never another exception."""
import ast as pyast
import inspect
import itertools
import json
import multiprocessing as mp
import os
import random
import subprocess
import sys
import traceback

import celpy
import celpy.celtypes as ct
import celpy.evaluation as ev
from celpy.celparser import CELParseError
from contracts import c04_rules as R
from pyvc import verify as V
from pyvc.parallel import run_contracts

LEVEL = "proof"
HERE = os.path.dirname(os.path.abspath(__file__))

# ------------------------------------------------------------------ layer 2: the real operator / function implementations
GRID = {
    "bool": [ct.BoolType(True), ct.BoolType(False)],
    "int": [ct.IntType(0), ct.IntType(1), ct.IntType(-1), ct.IntType(2 ** 63 - 1), ct.IntType(-2 ** 63), ct.IntType(7)],
    "uint": [ct.UintType(0), ct.UintType(1), ct.UintType(2 ** 64 - 1)],
    "double": [ct.DoubleType(0.0), ct.DoubleType(-0.0), ct.DoubleType(1.5), ct.DoubleType(1e308), ct.DoubleType(-1e308), ct.DoubleType(float("inf")), ct.DoubleType(float("nan")), ct.DoubleType(2.0 ** 63), ct.DoubleType(-2.0 ** 63), ct.DoubleType(2.0 ** 64)],
    "string": [ct.StringType(""), ct.StringType("a"), ct.StringType("1"), ct.StringType("-1"), ct.StringType("1.5"), ct.StringType("true"), ct.StringType("("), ct.StringType("UTC"), ct.StringType("+14:00"),
               ct.StringType("-23:59"), ct.StringType("America/Nowhere"), ct.StringType("2020-01-01T00:00:00Z"), ct.StringType("1h"), ct.StringType("999999999999h"), ct.StringType("\U0001f431"), ct.StringType("1e999")],
    "bytes": [ct.BytesType(b""), ct.BytesType(b"a"), ct.BytesType(b"\xff")],
    "null": [None],
    "list": [ct.ListType([]), ct.ListType([ct.IntType(1)]), ct.ListType([ct.IntType(1), ct.StringType("a")]), ct.ListType([ct.ListType([])]), ct.ListType([None])],
    "map": [ct.MapType({}), ct.MapType({ct.StringType("a"): ct.IntType(1)}), ct.MapType({ct.IntType(1): ct.IntType(2)}), ct.MapType({ct.BoolType(True): None})],
    "timestamp": [ct.TimestampType("2020-01-01T00:00:00Z"), ct.TimestampType("0001-01-01T00:00:00Z"), ct.TimestampType("9999-12-31T23:59:59Z")],
    "duration": [ct.DurationType("1s"), ct.DurationType("-1s"), ct.DurationType("0s")],
    "type": [ct.IntType, ct.StringType, ct.TypeType],
    "error": [ev.CELEvalError("some error")],
}
try:
    GRID["duration"] += [ct.DurationType("315576000000s"), ct.DurationType("-315576000000s")]
except Exception:
    pass
VALUES = [v for vs in GRID.values() for v in vs]


def layer2(rep, tier):
    """every built-in operator / function implementation raises only what its callers' contracts (layer 1) declare"""
    sys.stderr.flush()
    saved = os.dup(2)
    devnull = os.open(os.devnull, os.O_WRONLY)
    os.dup2(devnull, 2)          # re2 prints regex syntax errors to the C-level stderr
    try:
        return _layer2(rep, tier)
    finally:
        os.dup2(saved, 2)
        os.close(saved)
        os.close(devnull)


def _layer2(rep, tier):
    fails = {}
    n = 0
    rng = random.Random(0)
    for name, fn in sorted(ev.base_functions.items()):
        allowed = R.DECLARED.get(name, R.FUNCTION_ENVELOPE) + (ev.CELEvalError,)
        for arity in (1, 2, 3):
            pool = itertools.product(VALUES, repeat=arity) if arity < 3 else (tuple(rng.choice(VALUES) for _ in range(arity)) for _ in range(3000 if tier == "thorough" else 600))
            for args in pool:
                n += 1
                try:
                    fn(*args)
                except allowed:
                    pass
                except Exception as ex:
                    tb = traceback.extract_tb(ex.__traceback__)[-1]
                    key = (name, type(ex).__name__)
                    fails.setdefault(key, {"function": name, "args": [repr(a)[:60] for a in args], "raised": f"{type(ex).__name__}: {str(ex)[:80]}",
                                           "at": f"{os.path.basename(tb.filename)}:{tb.name}", "declared": [c.__name__ for c in allowed]})
    # string -> value conversions: every short text over the alphabet of number / duration / timestamp spellings
    alpha = ["0", "1", "9", ".", "-", "+", "e", "h", "m", "s", "u", "n", "T", "Z", ":", " ", "x", "t"]
    nconv = 0
    for name in ("duration", "timestamp", "int", "uint", "double", "bool", "bytes", "string"):
        fn = ev.base_functions[name]
        allowed = R.FUNCTION_ENVELOPE + (ev.CELEvalError,)
        for k in range(0, (5 if tier == "thorough" else 4)):
            for t in itertools.product(alpha, repeat=k):
                text = ct.StringType("".join(t))
                nconv += 1
                try:
                    fn(text)
                except allowed:
                    pass
                except Exception as ex:
                    key = (name, type(ex).__name__)
                    fails.setdefault(key, {"function": name, "args": [repr(text)], "raised": f"{type(ex).__name__}: {str(ex)[:80]}", "at": "conversion of a short text",
                                           "declared": [c.__name__ for c in allowed]})
    n += nconv
    rep.bounded.append({"function": "every entry of celpy.evaluation.base_functions against its declared raise envelope", "cases": n, "distinct_nontrivial": n,
                        "failures": len(fails), "bound": f"{len(VALUES)} boundary values of 13 kinds; all 1- and 2-argument calls, sampled 3-argument calls; the conversions on every text of up to 3 (thorough: 4) symbols of an 18-symbol number/duration/timestamp alphabet"})
    return list(fails.values())


# ------------------------------------------------------------------ whole programs, both runners
ATOMS = ["1", "-1", "0", "9223372036854775807", "-9223372036854775808", "1u", "0u", "18446744073709551615u", "18446744073709551616u", "9223372036854775808", "-9223372036854775809.0", "9223372036854775808.0", "1.5", "0.0", "1e308", "1e999",
         '"a"', '""', '"1"', 'b"a"', r'b"Ā"', r'b"\U00000041"', r'b"\xff"', r'"\U0001F431"', r'"\U00110000"', r'"\UFFFFFFFF"', r'b"\UFFFFFFFF"', r'"\ud800"', "true", "false", "null", "[]", "[1]", '[1, "a"]', "[[1]]", "{}", '{"a": 1}', "{1: 2}",
         "{[1]: 2}", "{1.5: 1}", "{null: 1}", "{1: 2, 1: 3}", '{"a": 1/0}', "[1/0]", 'timestamp("2020-01-01T00:00:00Z")', 'timestamp("0001-01-01T00:00:00Z")', 'timestamp("9999-12-31T23:59:59Z")',
         'duration("1s")', 'duration("-1s")', "int", "type", "type(1)", "type(type(1)) == type", "vi", "vs", "vl", "vm", "vn", "vb", "vd", "vby", "vts", "vdur", "vmissing", "vu", '"+14:00"', '"America/Nowhere"', '"America"', '"Etc"', '"("',
         '"999999999999h"', "9999999999999", "x", "T{a: 1}", "T{a: 1, a: 2}", "vm{a: 1}", "a.b.c", ".vi", ".vmissing", "[1, 2].map(package, package + 1)", "[1, 2].exists(get, get == 1)", "[1].map(clone, clone)", ".size(vl)", ".nosuch(1)", "vmn", "vmn.n", '{"a": null}.a', '{"f": null}', "vm.k", "vm.nokey",
         # maps whose keys are of different kinds (no order between them), selected / indexed by a key that is missing
         '{1: "x", "b": 2}', '{1: "x", "b": 2}.c', 'has({true: 1, 2: 2}.c)', '{1u: 1, "b": 2}["c"]', "vmx", "vmx.c", "has(vmx.c)",
         # non-finite doubles where an index / a count is expected
         "1.0 / 0.0", "0.0 / 0.0", "[7, 8, 9][1.0 / 0.0]", "[1][0.0 / 0.0]", "vinf"]
ACT = {"vi": ct.IntType(7), "vs": ct.StringType("seven"), "vl": ct.ListType([ct.IntType(1), ct.StringType("x")]), "vm": ct.MapType({ct.StringType("k"): ct.IntType(1)}),
       "vn": None, "vb": ct.BoolType(True), "vd": ct.DoubleType(2.5), "vby": ct.BytesType(b"\xff"), "vu": ct.UintType(3),
       "vts": ct.TimestampType("2021-02-03T04:05:06Z"), "vdur": ct.DurationType("90s"), "vmn": ct.MapType({ct.StringType("n"): None, ct.StringType("f"): None}),
       "vmx": ct.MapType({ct.IntType(1): ct.StringType("x"), ct.StringType("b"): ct.IntType(2), ct.UintType(7): ct.IntType(3)}), "vinf": ct.DoubleType("inf")}
BIN = ["||", "&&", "<", "<=", ">", ">=", "==", "!=", "in", "+", "-", "*", "/", "%"]
METHODS0 = ["size", "getFullYear", "getMonth", "getDate", "getDayOfMonth", "getDayOfWeek", "getDayOfYear", "getHours", "getMinutes", "getSeconds", "getMilliseconds", "nosuch"]
METHODS1 = ["contains", "startsWith", "endsWith", "matches", "getHours", "getFullYear", "getDayOfWeek", "getDate", "getMonth", "getMinutes", "getSeconds", "getMilliseconds", "getDayOfYear", "getDayOfMonth", "nosuch"]
FUNCS1 = ["size", "int", "uint", "double", "string", "bytes", "bool", "timestamp", "duration", "type", "dyn", "nosuch"]
MACROS = ["all", "exists", "exists_one", "map", "filter"]
MALFORMED = "malformed macro call"


def gen1(a):
    yield from (f"!{a}", f"-{a}", f"{a}.f", f"has({a}.f)", f"({a})", f"[{a}]", f"{{{a}: 1}}", f"{{1: {a}}}", f"{a} ? 1 : 2", f"true ? {a} : 1", f"T{{f: {a}}}")
    # every atom as the operand that does NOT decide: the other operand absorbs whatever this one does
    yield from (f"true || {a}", f"{a} || true", f"false && {a}", f"{a} && false", f"true ? 1 : {a}", f"false ? {a} : 1", f"false || {a}", f"{a} && true",
                f"true || ({a})", f"[1].exists(e, e == 1 || {a})")
    for m in METHODS0:
        yield f"{a}.{m}()"
    for f in FUNCS1:
        yield f"{f}({a})"
    for m in MACROS:
        yield from (f"{a}.{m}(x, x)", f"{a}.{m}(x, true)", f"{a}.{m}(x, x > 0)", f"{a}.{m}(x, x.f)", f"[{a}].{m}(x, x)", f"[{a}, true].{m}(x, x)")


def gen_malformed(a):
    for m in MACROS:
        yield from (f"{a}.{m}(x)", f"{a}.{m}(1, x)", f"{a}.{m}(x, x, x)", f"{a}.{m}()", f"{a}.{m}(x.y, x)")
    yield from (f"has({a})", "has()", "dyn()", f"has({a}, {a})", f"dyn({a}, {a})")


def gen2(a, b):
    for op in BIN:
        yield f"{a} {op} {b}"
    yield f"{a}[{b}]"
    for m in METHODS1:
        yield f"{a}.{m}({b})"
    yield from (f"{a} ? {b} : 1", f"{a}.exists(x, x == {b})", f"{a}.map(x, x + {b})", f"{a}.filter(x, {b})", f"getDate({a}, {b})", f"{{{a}: 1, {b}: 2}}", f"[{a}, {b}]")


_ENVS = {}


def outcome(text, rname):
    runner = {"I": celpy.InterpretedRunner, "C": celpy.CompiledRunner}[rname]
    if rname not in _ENVS:
        celpy.CELParser.CEL_PARSER = None
        _ENVS[rname] = celpy.Environment(runner_class=runner)
    env = _ENVS[rname]
    try:
        ast = env.compile(text)
    except CELParseError:
        return None
    except Exception as ex:
        return ("compile", ex)
    try:
        prog = env.program(ast)
    except Exception as ex:
        return ("program", ex)
    try:
        prog.evaluate(dict(ACT))
    except ev.CELEvalError as ex:
        try:
            str(ex)
            repr(ex)
        except Exception as e2:
            return ("render", e2)
    except Exception as ex:
        return ("evaluate", ex)
    return None


def _chunk(job):
    import logging
    logging.disable(logging.CRITICAL)
    devnull = os.open(os.devnull, os.O_WRONLY)
    os.dup2(devnull, 2)          # re2 prints regex syntax errors to the C-level stderr
    out = []
    for text, malformed in job:
        for rn in ("I", "C"):
            r = outcome(text, rn)
            if r is not None:
                st, ex = r
                tb = traceback.extract_tb(ex.__traceback__)
                at = f"{os.path.basename(tb[-1].filename)}:{tb[-1].name}" if tb else "?"
                out.append({"text": text, "runner": rn, "stage": st, "raised": type(ex).__name__, "message": str(ex)[:100], "at": at, "malformed": malformed})
    return out


def programs(rep, tier, seed):
    rng = random.Random(seed)
    exprs = [(a, False) for a in ATOMS]
    for a in ATOMS:
        exprs += [(t, False) for t in gen1(a)]
        exprs += [(t, True) for t in gen_malformed(a)]
    pairs = list(itertools.product(ATOMS, repeat=2))
    if tier != "thorough":
        pairs = rng.sample(pairs, 900)
    for a, b in pairs:
        exprs += [(t, False) for t in gen2(a, b)]
    # depth 3: operators over operator results
    d2 = [t for t, m in exprs if not m]
    for _ in range(20000 if tier == "thorough" else 3000):
        a, b = rng.choice(d2), rng.choice(d2)
        exprs.append((rng.choice([f"({a}) {rng.choice(BIN)} ({b})", f"({a}) ? ({b}) : 1", f"[{a}].map(x, {b})", f"size({a}) + {b}", f"!({a}) || {b}"]), False))
    # deterministic: every accessor that takes a zone, over texts that look like zone names (a directory of the zone
    # database, a zone, an unknown zone, an offset, the empty text) - not left to the sampled pairs
    for m in ("getHours", "getDate", "getDayOfWeek", "getFullYear", "getMinutes"):
        for z in ('"America"', '"Etc"', '"America/Nowhere"', '"America/New_York"', '"+14:00"', '""', '"."', '"/"', '"posix"'):
            exprs.append((f"vts.{m}({z})", False))
            exprs.append((f"timestamp(\"2020-01-01T00:00:00Z\").{m}({z}) == 1 || true", False))
    exprs = list(dict.fromkeys(exprs))
    chunks = [exprs[i::64] for i in range(64)]
    ctx = mp.get_context("fork")
    fails = []
    with ctx.Pool(min(16, os.cpu_count() or 4)) as pool:
        for r in pool.imap_unordered(_chunk, chunks):
            fails += r
    rep.bounded.append({"function": "Environment.compile / program / Runner.evaluate / str+repr of the error, both runners", "cases": 2 * len(exprs), "distinct_nontrivial": len(exprs),
                        "failures": len(fails), "bound": f"{len(ATOMS)} atoms of every value kind and literal spelling; every unary/member/function/macro form over each atom; "
                        f"binary forms over {len(pairs)} atom pairs; sampled depth-3 combinations; one activation"})
    return fails


# ------------------------------------------------------------------ the parser front end
def parse_texts(tier, seed):
    alpha = ["1", "a", " ", "\n", "(", ")", "[", "]", "{", "}", ".", ",", ":", "?", "+", "-", "!", "&&", "||", "==", "<", "in", '"', "'", "\\", "//", "$", "\x00", "é", "0x", "u", "b", "r", "true", "1.", "e5", "\r"]
    n = 3 if tier != "thorough" else 4
    for k in range(0, n + 1):
        for t in itertools.product(alpha, repeat=k):
            yield "".join(t)
    rng = random.Random(seed)
    corpus = ["account.balance >= transaction.withdrawal || (account.overdraftProtection && account.overdraftLimit >= transaction.withdrawal - account.balance)",
              '[1, 2, 3].map(x, x * 2).filter(y, y > 2)', 'has(a.b) ? {"k": [1u, 2.5, b"z"]} : null', "x in [1, 2] && !y.startsWith('a')"]
    for _ in range(4000 if tier != "thorough" else 40000):
        s = list(rng.choice(corpus))
        for _ in range(rng.randint(1, 3)):
            i = rng.randrange(len(s) + 1)
            op = rng.random()
            if op < 0.4 and s:
                del s[min(i, len(s) - 1)]
            elif op < 0.8:
                s.insert(i, rng.choice(alpha))
            else:
                s = s[:i]
        yield "".join(s)


def _parse_chunk(texts):
    import logging
    logging.disable(logging.CRITICAL)
    p = celpy.CELParser()
    out = []
    n_err = 0
    for t in texts:
        try:
            p.parse(t)
        except CELParseError as ex:
            n_err += 1
            lines = t.split("\n")
            ok = isinstance(ex.line, int) and isinstance(ex.column, int) and 1 <= ex.line <= len(lines) and 1 <= ex.column <= len(lines[ex.line - 1]) + 1
            try:
                str(ex)
                repr(ex)
            except Exception as e2:
                out.append({"text": t, "observed": f"rendering the parse error raised {type(e2).__name__}"})
                continue
            if not ok:
                out.append({"text": t, "observed": f"CELParseError at line={ex.line!r} column={ex.column!r}: outside the text"})
        except Exception as ex:
            out.append({"text": t, "observed": f"{type(ex).__name__}: {str(ex)[:80]}"})
    return out, n_err, len(texts)


def parser_front(rep, tier, seed):
    texts = list(dict.fromkeys(parse_texts(tier, seed)))
    chunks = [texts[i::64] for i in range(64)]
    ctx = mp.get_context("fork")
    fails, n_err, n = [], 0, 0
    with ctx.Pool(min(16, os.cpu_count() or 4)) as pool:
        for f, e, k in pool.imap_unordered(_parse_chunk, chunks):
            fails += f
            n_err += e
            n += k
    rep.bounded.append({"function": "CELParser.parse on arbitrary text", "cases": n, "distinct_nontrivial": n_err, "failures": len(fails),
                        "bound": "all concatenations of up to 3 (thorough: 4) of 37 lexical fragments, plus mutated corpus expressions; distinct_nontrivial = texts rejected with a parse error"})
    return fails


# ------------------------------------------------------------------ recursion limit
NEST = 12
DEEP = {
    "12 nested calls over lists": "size([" * NEST + " + ".join(["1"] * 24) + "])" * NEST,
    "12 nested parenthesised list calls": "size([(" * NEST + "1" + ")])" * NEST,
    "12 nested index operations": "size([[" * NEST + "1" + "][0]])" * NEST,
    "32 nested parentheses": "(" * 32 + "x + 1" + ")" * 32,
    "12 nested ternaries": "true ? (" * NEST + "1" + ") : 0" * NEST,
    "12 nested unary": "-(" * NEST + "x" + ")" * NEST,
    "12 nested maps": '{"a": ' * NEST + "1" + "}" * NEST,
    "24 member selections": "m" + ".a" * 24,
    "32 terms": " || ".join(["false"] * 32),
    "12 nested macros": "[[1]].all(a, " * 1 + "[1].map(b, " * 11 + "b" + ")" * 11 + " == [1])",
}
CHILD = r'''
import json, sys, logging
logging.disable(logging.CRITICAL)
start = sys.getrecursionlimit()
import celpy
from celpy.evaluation import CELEvalError
cases = json.loads(sys.argv[1])
deep = {"a": None}
m = celpy.celtypes.MapType()
cur = m
for i in range(25):
    nxt = celpy.celtypes.MapType()
    cur[celpy.celtypes.StringType("a")] = nxt
    cur = nxt
out = {"start": start, "results": {}}
for rn, runner in (("I", celpy.InterpretedRunner), ("C", celpy.CompiledRunner)):
    celpy.CELParser.CEL_PARSER = None
    env = celpy.Environment(runner_class=runner)
    out["after"] = sys.getrecursionlimit()
    for name, text in cases.items():
        try:
            env.program(env.compile(text)).evaluate({"x": celpy.celtypes.IntType(41), "m": m})
            out["results"][rn + ":" + name] = "value"
        except CELEvalError as ex:
            str(ex); repr(ex)
            out["results"][rn + ":" + name] = "cel-error"
        except BaseException as ex:
            out["results"][rn + ":" + name] = "ESCAPED " + type(ex).__name__
print(json.dumps(out))
'''


def recursion(rep):
    func = "src/celpy/__init__.py:Environment.__init__"
    # fresh interpreters with the default limit, a host-lowered and a host-raised one: CEL's minimum nesting evaluates
    for start in (None, 400, 5000):
        code = CHILD if start is None else f"import sys; sys.setrecursionlimit({start})\n" + CHILD
        env = dict(os.environ)
        r = subprocess.run([sys.executable, "-c", code, json.dumps(DEEP)], capture_output=True, text=True, env=env, timeout=600)
        try:
            out = json.loads(r.stdout.strip().splitlines()[-1])
        except Exception:
            rep.errors.append(f"recursion child failed: {r.stderr[-400:]}")
            continue
        for key, res in sorted(out["results"].items()):
            ok = not res.startswith("ESCAPED")
            o = V.table_obl(rep, f"REC:start={out['start']}:{key}", func, "an expression within CEL's minimum nesting limits ends in a value or a CEL error in a fresh interpreter", ok,
                            f"input: {DEEP[key.split(':', 1)[1]][:120]!r} -> {res}", kind="B")
            if not ok:
                o.replay = {"replayed": True, "confirmed": True, "inputs": {"text": DEEP[key.split(':', 1)[1]], "runner": key[0], "initial_recursion_limit": out["start"]}, "observed": res}


def build(rep, tier="quick", seed=0, known=None):
    listed = {k["id"]: k for k in (known or [])}
    cs = R.contracts() + R.parser_contract() + R.operator_envelope_contracts() + R.function_envelope_contracts()
    run_contracts(cs, rep, known=known)
    recursion(rep)

    def add(oid, func, desc, f, finding=None):
        o = rep.add(V.Obl(oid, "B", func, desc))
        o.status, o.backend = "refuted", "cpython"
        o.detail = "failing input: " + json.dumps(f)[:500]
        o.replay = {"replayed": True, "confirmed": True, "inputs": f}
        if finding and finding in listed:
            o.finding_id = finding
    for f in layer2(rep, tier):
        add(f"envelope[{f['function']}:{f['raised'].split(':')[0]}]", f"base_functions[{f['function']}]", "raises only its declared envelope", f)
    seen = set()
    for f in programs(rep, tier, seed):
        key = (f["runner"], f["stage"], f["raised"], f["at"], f["malformed"])
        if key in seen:
            continue
        seen.add(key)
        add(f"program[{f['runner']}:{f['stage']}:{f['raised']}@{f['at']}{':malformed-macro' if f['malformed'] else ''}]", "Runner.evaluate",
            "ends in a value or CELEvalError that renders", f, "C04-malformed-macro" if f["malformed"] else None)
    for f in parser_front(rep, tier, seed)[:20]:
        add(f"parse[{f['text']!r}]", "CELParser.parse", "returns a tree or raises CELParseError with a position inside the text", f)
    rep.trusted |= {"layer 2 (the real implementations raise only their declared envelope) is discharged for every operator on all pairs of scalar kinds "
                    "(bool, int64, uint64, double, string, bytes, null) by symbolic execution of the real celtypes code, cross-checked on CPython; "
                    "likewise for size, the string predicates and the conversions int/uint/double/string/bytes/bool/type; "
                    "for lists, maps, timestamps, durations, types as operands and the remaining functions (matches, time accessors) it is the bounded grid check",
                    "lark's LALR front end raises only UnexpectedToken / UnexpectedCharacters (subclasses of LexError / ParseError)",
                    "repr() of the args tuple of an error does not raise"}
    return {}
