"""C14 - host functions bind uniformly as functions or methods and override built-ins."""
import itertools
import types

import z3

import celpy
import celpy.celtypes as ct
import celpy.evaluation as ev
from contracts.specs import *
from contracts.evaluator_rules import rule_contract, STUB, TOK, is_error, sym_evaluator, install as install_rules
from contracts.logic import OUTCOMES, ERR, desc
from contracts import templates as T
from pyvc import verify as V
from pyvc import symexec as se
from pyvc.parallel import run_contracts
from pyvc.values import VInt, VStr, VObj, VDict, VList, VNative, VTuple, VModel, VTok, NONE
import lark

LEVEL = "proof"
I64 = V.IntDom(ct.IntType, I64_MIN, I64_MAX1, "IntType")
ARGDOMS = [I64, V.StrDom(ct.StringType), V.NoneDom()]


def host(run, S, behaviour):
    """an arbitrary host function: logs its calls; returns a value / returns a CELEvalError / raises"""
    calls = []
    S.calls = calls

    def f(run, *args, **kw):
        calls.append(list(args))
        if behaviour == "value":
            S.result = VObj(ct.StringType, {}, label="host-result")
            return S.result
        if behaviour == "returns-error":
            S.result = VObj(ev.CELEvalError, {"args": VTuple([VStr(str, "host says no")])}, label="host-error")
            return S.result
        exc = {"raises-ValueError": ValueError, "raises-TypeError": TypeError,
               "raises-ValueError-subclass": HostValueError, "raises-TypeError-subclass": HostTypeError}[behaviour]
        raise se.PyRaise(VObj(exc, {"args": VTuple([VStr(str, "bad argument")])}))
    return VModel(f, "host_function")


class HostValueError(ValueError):
    """a host library's own error class (like json.JSONDecodeError or UnicodeDecodeError: a ValueError)"""


class HostTypeError(TypeError):
    pass


BEHAVIOURS = ["value", "returns-error", "raises-ValueError", "raises-TypeError", "raises-ValueError-subclass", "raises-TypeError-subclass"]


def tok(name):
    return VTok(lark.Token, z3.StringVal(name), {"type": VStr(str, "IDENT"), "value": VStr(str, name), "line": VInt(int, 1), "column": VInt(int, 1)})


def eval_contracts():
    cs = []
    for form, nargs, beh in itertools.product(("function", "method"), (0, 1, 2, 3), BEHAVIOURS):
        if form == "method" and nargs == 0:
            continue

        def invoke(run, S, form=form, nargs=nargs, beh=beh):
            install_rules(run.engine)
            S.f = host(run, S, beh)
            e = sym_evaluator(run, functions={"f": None})
            e.attrs["activation"].attrs["functions"].attrs["maps"].items[0].pairs[0][1] = S.f
            S.args = [ARGDOMS[i % len(ARGDOMS)].make(run, f"arg{i}") for i in range(nargs)]
            if form == "function":
                return run.call(run.getattr(e, "function_eval"), [tok("f"), VList(ct.ListType, list(S.args))])
            return run.call(run.getattr(e, "method_eval"), [S.args[0], tok("f"), VList(ct.ListType, list(S.args[1:]))])

        def post(S, r, beh=beh):
            once = len(S.calls) == 1 and len(S.calls[0]) == len(S.args) and all(a is b for a, b in zip(S.calls[0], S.args))
            if not once:
                return False
            if beh in ("value", "returns-error"):
                return r is S.result
            return is_error(r)
        cs.append(V.Contract(f"celpy.evaluation:Evaluator.{form}_eval", [], name=f"{form}_eval: {nargs} args, host {beh}",
                             invoke=invoke, ret=post, exc={}, cover=False, native=False))
    # an argument that is an error: the error is the outcome and the function is not called
    for form in ("function", "method"):
        def invoke(run, S, form=form):
            install_rules(run.engine)
            S.f = host(run, S, "value")
            e = sym_evaluator(run, functions={"f": None})
            e.attrs["activation"].attrs["functions"].attrs["maps"].items[0].pairs[0][1] = S.f
            S.err = VObj(ev.CELEvalError, {"args": VTuple([])}, label="arg-error")
            if form == "function":
                return run.call(run.getattr(e, "function_eval"), [tok("f"), VList(ct.ListType, [VInt(ct.IntType, 1), S.err])])
            return run.call(run.getattr(e, "method_eval"), [S.err, tok("f"), VList(ct.ListType, [])])
        cs.append(V.Contract(f"celpy.evaluation:Evaluator.{form}_eval", [], name=f"{form}_eval: an error argument is the outcome",
                             invoke=invoke, ret=lambda S, r: r is S.err and not S.calls, exc={}, cover=False, native=False))
    # a name bound to no function: an error value
    for form in ("function", "method"):
        def invoke(run, S, form=form):
            install_rules(run.engine)
            e = sym_evaluator(run)
            if form == "function":
                return run.call(run.getattr(e, "function_eval"), [tok("no_such_function"), VList(ct.ListType, [])])
            return run.call(run.getattr(e, "method_eval"), [VInt(ct.IntType, 1), tok("no_such_function"), VList(ct.ListType, [])])
        cs.append(V.Contract(f"celpy.evaluation:Evaluator.{form}_eval", [], name=f"{form}_eval: unbound name is an error",
                             invoke=invoke, ret=lambda S, r: is_error(r), exc={}, cover=False, native=False))
    return cs


def binding_contracts():
    """Activation.__init__: both supplying styles bind by name in front of the built-ins, for this activation only."""
    cs = []
    for style, shadows in itertools.product(("list", "dict", "none"), (False, True)):
        if style == "none" and shadows:
            continue

        def invoke(run, S, style=style, shadows=shadows):
            name = "size" if shadows else "my_function"
            S.name = name
            S.fn = VObj(types.FunctionType, {"__name__": VStr(str, name)}, label="host")
            functions = {"list": VList(list, [S.fn]), "dict": VDict(dict, [[VStr(str, name), S.fn]]), "none": NONE}[style]
            act = run.call(VNative(ev.Activation), [], {"functions": functions})
            S.act = act
            try:
                S.hit = run.call(run.getattr(act, "resolve_function"), [VStr(str, name)])
            except se.PyRaise as pr:
                S.hit = pr.exc
            S.builtin = run.call(run.getattr(act, "resolve_function"), [VStr(str, "contains")])
            return act

        def post(S, r, style=style, shadows=shadows):
            run = S._run
            base_img = run.shared.get(id(ev.base_functions))
            untouched = all(t is not base_img for t, _ in run.heap_writes) if base_img is not None else True
            if style == "none":
                bound = isinstance(S.hit, VObj) and S.hit.cls is KeyError
            else:
                bound = S.hit is S.fn
            builtin_ok = isinstance(S.builtin, VNative) and S.builtin.obj is ev.base_functions["contains"]
            return bool(untouched and bound and builtin_ok)
        cs.append(V.Contract("celpy.evaluation:Activation.__init__", [], name=f"Activation(functions={style}{', shadowing a built-in' if shadows else ''})",
                             invoke=invoke, ret=post, exc={}, cover=False, native=False))
    return cs


def emitted_contracts():
    """The call templates of the compiled runner: exactly one call with the evaluated arguments; errors are outcomes."""
    cs = []
    H = T.hole_outcomes([I64])[:1]
    for form, beh in itertools.product(("function", "method"), BEHAVIOURS):
        shape = ("primary", [("ident_arg", [T.TOK("IDENT", "f"), ("exprlist", [T.HOLE("a"), T.HOLE("b")])])]) if form == "function" else \
            ("member", [("member_dot_arg", [T.HOLE("a"), T.TOK("IDENT", "f"), ("exprlist", [T.HOLE("b")])])])
        marker = lambda x: x          # a lambda: not addressable as module.qualname in generated code

        def invoke(run, S, beh=beh, shape=shape, marker=marker):
            from contracts.evaluator_rules import sym_activation
            import ast as _ast
            try:
                text = T.emit(shape, functions={"f": marker})
                tree = _ast.parse(text)
            except Exception as ex:
                # program construction itself failed (e.g. SyntaxError when the generated text is compiled)
                raise se.PyRaise(VObj(type(ex), {"args": VTuple([VStr(str, str(ex)[:80])])}))
            S.f = host(run, S, beh)
            act = sym_activation(run, functions={"f": None})
            act.attrs["functions"].attrs["maps"].items[0].pairs[0][1] = S.f
            env = se.Env({"hole_a": S.a, "hole_b": S.b, "base_activation": act}, None, ev.__dict__)
            run.exec_block(tree.body, env)
            return env.vars["CEL"]

        def post(S, r, beh=beh):
            va, vb = S.a.meta[1], S.b.meta[1]
            once = len(S.calls) == 1 and len(S.calls[0]) == 2 and S.calls[0][0] is va and S.calls[0][1] is vb
            if not once:
                return False
            return (r is S.result) if beh in ("value", "returns-error") else is_error(r)
        c = V.Contract("celpy.evaluation:Phase1Transpiler.func_name", [("a", H), ("b", H)], name=f"emitted {form} call, host {beh}",
                       invoke=invoke, ret=post, exc={}, cover=False, native=False)
        cs.append(c)
    return cs


# ------------------------------------------------------------------ every kind of callable, both runners (bounded, native)
def module_level(x, y=None):
    return ct.IntType(int(x) * 10 + (int(y) if y is not None else 0))


class CallableObject:
    __name__ = "callme"

    def __call__(self, x, y=None):
        return ct.IntType(int(x) * 100 + (int(y) if y is not None else 0))


def make_nested():
    def nested(x, y=None):
        return ct.IntType(int(x) * 1000 + (int(y) if y is not None else 0))
    return nested


def bounded(rep, tier, seed, known):
    fails = []
    n = 0
    log = []

    def counting(name, fn):
        def wrapper(*a):
            log.append((name, a))
            return fn(*a)
        wrapper.__name__ = name
        return wrapper
    nested = make_nested()
    kinds = {
        "module-level def": ("module_level", module_level, 10),
        "nested def": ("nested", nested, 1000),
        "lambda": ("lam", (lambda x, y=None: ct.IntType(int(x) * 7 + (int(y) if y is not None else 0))), 7),
        "callable object": ("callme", CallableObject(), 100),
        "counting closure": ("counted", counting("counted", module_level), 10),
        "shadows built-in": ("size", (lambda x, y=None: ct.IntType(4242)), None),
    }
    for runner in (celpy.InterpretedRunner, celpy.CompiledRunner):
        celpy.CELParser.CEL_PARSER = None
        env = celpy.Environment(runner_class=runner)
        for kind, (name, fn, k) in kinds.items():
            for style in ("list", "dict"):
                if style == "list" and not hasattr(fn, "__name__"):
                    continue
                functions = [fn] if style == "list" else {name: fn}
                if style == "list":
                    name_ = fn.__name__ if fn.__name__ != "<lambda>" else None
                    if name_ is None:
                        continue
                else:
                    name_ = name
                progs = [(f"{name_}(3)", None), (f"{name_}(3, 4)", None), (f"(3).{name_}(4)", f"{name_}(3, 4)"),
                         (f"{name_}(1/0) == 1 || true", True), (f"[1, 2].map(x, {name_}(x))", None),
                         (f"true ? {name_}(3) : {name_}(4)", f"{name_}(3)")]
                for text, same_as in progs:
                    n += 1
                    oid = f"{runner.__name__}|{kind}|{style}|{text}"
                    try:
                        got = env.program(env.compile(text), functions=functions).evaluate({})
                        if same_as is True:
                            ok = isinstance(got, ct.BoolType) and bool(got)
                        elif kind == "shadows built-in":
                            ok = "4242" in repr(got)
                        else:
                            # independent expectation from the function itself
                            if text.startswith("["):
                                want = [fn(ct.IntType(1)), fn(ct.IntType(2))]
                            elif "?" in text:
                                want = fn(ct.IntType(3))
                            elif text.startswith("(3)."):
                                want = fn(ct.IntType(3), ct.IntType(4))
                            elif "," in text:
                                want = fn(ct.IntType(3), ct.IntType(4))
                            else:
                                want = fn(ct.IntType(3))
                            ok = got == want
                    except Exception as ex:
                        got, ok = f"{type(ex).__name__}: {str(ex)[:100]}", False
                    if not ok:
                        fails.append({"id": oid, "runner": runner.__name__, "callable": kind, "supplied_as": style, "cel": text, "observed": repr(got)})
        # unbound name; per-program override does not leak
        for text, fns, want in [("nofunc(1) || true", {}, True), ("size([1, 2, 3])", {}, 3)]:
            n += 1
            try:
                got = env.program(env.compile(text), functions=fns).evaluate({})
                ok = got == want
            except Exception as ex:
                got, ok = repr(ex)[:100], False
            if not ok:
                fails.append({"id": f"{runner.__name__}|{text}", "runner": runner.__name__, "cel": text, "observed": repr(got), "expected": want})
    # once per call site reached
    celpy.CELParser.CEL_PARSER = None
    env = celpy.Environment(runner_class=celpy.InterpretedRunner)
    del log[:]
    env.program(env.compile("counted(1) + counted(1) + (false && counted(2) == 0 ? 1 : 2)"), functions=[kinds["counting closure"][1]]).evaluate({})
    n += 1
    ones = [a for (nm, a) in log if int(a[0]) == 1]
    if len(ones) != 2:
        fails.append({"id": "call-count", "cel": "counted(1) + counted(1) + (false && counted(2) == 0 ? 1 : 2)",
                      "observed": f"{len(ones)} calls of counted(1) for two call sites", "expected": "2 calls"})
    for runner in (celpy.InterpretedRunner, celpy.CompiledRunner):
        celpy.CELParser.CEL_PARSER = None
        env = celpy.Environment(runner_class=runner)
        del log[:]
        n += 1
        try:
            env.program(env.compile("[7, 7, 7].map(x, counted(x)).size() == 3 && counted(7) == 70"), functions=[kinds["counting closure"][1]]).evaluate({})
        except Exception:
            pass
        if len(log) != 4:
            fails.append({"id": f"call-count-macro|{runner.__name__}", "runner": runner.__name__, "cel": "[7, 7, 7].map(x, counted(x)).size() == 3 && counted(7) == 70",
                          "observed": f"{len(log)} calls", "expected": "4 calls (one per call site reached, per iteration)"})
    # functions and variables are different name spaces: a variable (context, declared or macro variable) named like a host
    # function does not hide it; a host function raising a SUBCLASS of ValueError / TypeError is an evaluation error
    def discount(x):
        return ct.IntType(int(x) - 2)

    def parse_json(x):
        import json as _json
        return _json.loads(str(x))          # json.JSONDecodeError is a ValueError

    def picky(x):
        raise HostTypeError("wrong kind of argument")
    for runner in (celpy.InterpretedRunner, celpy.CompiledRunner):
        for style in ("list", "dict"):
            celpy.CELParser.CEL_PARSER = None
            env = celpy.Environment(runner_class=runner)
            env_decl = celpy.Environment(annotations={"discount": ct.IntType}, runner_class=runner)
            fns = [discount, parse_json, picky] if style == "list" else {"discount": discount, "parse_json": parse_json, "picky": picky}
            for e_, text, bindings, want, label in (
                    (env, "discount(price) + discount", {"price": ct.IntType(12), "discount": ct.IntType(1)}, 11, "variable-named-like-function"),
                    (env, "price.discount() + discount", {"price": ct.IntType(12), "discount": ct.IntType(1)}, 11, "variable-named-like-function"),
                    (env, "[10, 20].map(discount, discount(discount))", {}, [8, 18], "variable-named-like-function"),
                    (env_decl, "discount(12)", {}, 10, "variable-named-like-function"),
                    (env, "parse_json('{') == 1 || true", {}, True, "raises-subclass"),
                    (env, "'{'.parse_json() == 1 || true", {}, True, "raises-subclass"),
                    (env, "picky(1) == 1 || true", {}, True, "raises-subclass"),
                    (env, "[1].exists(x, picky(x) == 1 || true)", {}, True, "raises-subclass")):
                n += 1
                try:
                    got = e_.program(e_.compile(text), functions=fns).evaluate(dict(bindings))
                    ok = got == want
                except Exception as ex:
                    got, ok = f"{type(ex).__name__}: {str(ex)[:100]}", False
                if not ok:
                    fails.append({"id": f"{label}|{runner.__name__}|{style}|{text}", "runner": runner.__name__, "supplied_as": style, "cel": text,
                                  "observed": repr(got), "expected": want, "label": label})

    # only the selected branch of ?: is reached; an argument that is an error is the outcome and the function is not invoked
    def errfn(x):
        return ev.CELEvalError("host says no")
    for runner in (celpy.InterpretedRunner, celpy.CompiledRunner):
        celpy.CELParser.CEL_PARSER = None
        env = celpy.Environment(runner_class=runner)
        counted = kinds["counting closure"][1]
        for text, want_calls, label in (("true ? counted(3) : counted(4)", [3], "ternary-unselected-branch"), ("false ? counted(3) : counted(4)", [4], "ternary-unselected-branch"),
                                        ("counted(errfn(1)) == 1 || true", [], "error-argument"), ("counted(1/0) == 1 || true", [], "raised-error-argument")):
            del log[:]
            n += 1
            try:
                got = env.program(env.compile(text), functions={"counted": counted, "errfn": errfn}).evaluate({})
            except Exception as ex:
                got = f"{type(ex).__name__}"
            calls = [int(a[0]) if isinstance(a[0], int) else type(a[0]).__name__ for (_, a) in log]
            if calls != want_calls:
                fails.append({"id": f"{label}|{runner.__name__}|{text}", "runner": runner.__name__, "cel": text, "observed": f"host invoked with {calls}, result {got!r}",
                              "expected": f"host invoked with {want_calls}", "label": label})
    celpy.CELParser.CEL_PARSER = None
    rep.bounded.append({"function": "every kind of callable x supplying style x call shape x both runners", "cases": n, "distinct_nontrivial": n,
                        "bound": "6 callables x {list, dict} x 6 program shapes x 2 runners", "failures": len(fails)})
    listed = {k["id"]: k for k in (known or [])}
    for f in fails:
        o = rep.add(V.Obl(f"host[{f['id']}]", "B", "Environment.program / Runner", "host function reached with the evaluated arguments"))
        o.status, o.backend = "refuted", "cpython"
        o.detail = "failing input: " + repr(f)[:400]
        o.replay = {"replayed": True, "confirmed": True, "inputs": f}
        if f.get("label") == "ternary-unselected-branch" and f.get("runner") == "CompiledRunner" and "C14-compiled-evaluates-unselected-branch" in listed:
            o.finding_id = "C14-compiled-evaluates-unselected-branch"
        if f.get("label") == "error-argument" and f.get("runner") == "CompiledRunner" and "C14-compiled-error-argument" in listed:
            o.finding_id = "C14-compiled-error-argument"
        if "C14-importable-module-function-compiled" in listed and f.get("runner") == "CompiledRunner" and \
                f.get("callable") in ("module-level def", "counting closure"):
            o.finding_id = "C14-importable-module-function-compiled"


def build(rep, tier="quick", seed=0, known=None):
    run_contracts(eval_contracts() + binding_contracts() + emitted_contracts(), rep, known=known)
    bounded(rep, tier, seed, known)
    rep.trusted |= {"collections.ChainMap source is executed symbolically; host functions are arbitrary callables with a call log (ghost)"}
    return {}
