"""C01 - numeric operators exact: int64/uint64 overflow-checked, double IEEE-754."""
import operator

import z3

import celpy.celtypes as ct
import celpy.evaluation as ev
from contracts.specs import *
from contracts import evaluator_rules as er
from pyvc import verify as V
from pyvc.parallel import run_contracts
from pyvc.values import VInt, VFloat, VModel, VNative, FP, RNE

LEVEL = "proof"

I64 = V.IntDom(ct.IntType, I64_MIN, I64_MAX1, "int64")
U64 = V.IntDom(ct.UintType, 0, U64_MAX1, "uint64")
DBL = V.FloatDom(ct.DoubleType)
K = z3.Int("k_witness")


def arith(cls, inr, fn):
    return dict(
        ret=lambda S, r: z3.And(inr(fn(S.self.t, S.other.t)), is_int(r, cls, fn(S.self.t, S.other.t))),
        exc={ValueError: lambda S: z3.Not(inr(fn(S.self.t, S.other.t)))})


def division(cls, inr, swap):
    def ab(S):
        return (S.other.t, S.self.t) if swap else (S.self.t, S.other.t)
    return dict(
        ret=lambda S, r: (isinstance(r, VInt) and r.cls is cls) and z3.And(inr(r.t), tdiv_rel(*ab(S), r.t)),
        exc={ZeroDivisionError: lambda S: ab(S)[1] == 0,
             # the only int64 quotient that does not fit: MIN / -1 (lemma tdiv-overflow below); never for uint64
             ValueError: (lambda S: z3.And(ab(S)[0] == I64_MIN, ab(S)[1] == -1)) if cls is ct.IntType else (lambda S: False)})


def modulo(cls, inr, swap):
    def ab(S):
        return (S.other.t, S.self.t) if swap else (S.self.t, S.other.t)
    return dict(
        ret=lambda S, r: (isinstance(r, VInt) and r.cls is cls) and z3.And(
            inr(r.t), z3.Exists([K], tmod_rel(*ab(S), r.t, K))),
        exc={ZeroDivisionError: lambda S: ab(S)[1] == 0})


def contracts():
    cs = []
    for cls, dom, inr, tag in ((ct.IntType, I64, in_i64, "IntType"), (ct.UintType, U64, in_u64, "UintType")):
        a2 = [("self", dom), ("other", dom)]
        T = f"celpy.celtypes:{tag}."
        cs += [
            V.Contract(T + "__add__", a2, **arith(cls, inr, lambda a, b: a + b)),
            V.Contract(T + "__radd__", a2, **arith(cls, inr, lambda a, b: b + a)),
            V.Contract(T + "__sub__", a2, **arith(cls, inr, lambda a, b: a - b)),
            V.Contract(T + "__rsub__", a2, **arith(cls, inr, lambda a, b: b - a)),
            V.Contract(T + "__mul__", a2, **arith(cls, inr, lambda a, b: a * b)),
            V.Contract(T + "__rmul__", a2, **arith(cls, inr, lambda a, b: b * a)),
            V.Contract(T + "__truediv__", a2, cover=(cls is ct.IntType), **division(cls, inr, False)),
            V.Contract(T + "__floordiv__", a2, cover=(cls is ct.IntType), **division(cls, inr, False)),
            V.Contract(T + "__rtruediv__", a2, cover=(cls is ct.IntType), **division(cls, inr, True)),
            V.Contract(T + "__rfloordiv__", a2, cover=(cls is ct.IntType), **division(cls, inr, True)),
            V.Contract(T + "__mod__", a2, **modulo(cls, inr, False)),
            V.Contract(T + "__rmod__", a2, **modulo(cls, inr, True)),
        ]
        # the operators as the language reaches them: operator.<op>(a, b) with CPython dispatch
        for opn, pyop, spec in (("_+_", "Add", arith(cls, inr, lambda a, b: a + b)),
                                ("_-_", "Sub", arith(cls, inr, lambda a, b: a - b)),
                                ("_*_", "Mult", arith(cls, inr, lambda a, b: a * b)),
                                ("_/_", "Div", division(cls, inr, False)),
                                ("_%_", "Mod", modulo(cls, inr, False))):
            real = ev.base_functions[opn]
            cs.append(V.Contract(
                T + "__add__", a2, name=f"base_functions[{opn!r}]({tag},{tag})",
                invoke=(lambda real: lambda run, S: run.call(VNative(real), [S.self, S.other]))(real),
                native=(lambda real: lambda N: real(N["self"], N["other"]))(real),
                cover=(cls is ct.IntType or opn not in ("_/_",)), **spec))
    cs += [
        V.Contract("celpy.celtypes:IntType.__neg__", [("self", I64)],
                   ret=lambda S, r: z3.And(in_i64(-S.self.t), is_int(r, ct.IntType, -S.self.t)),
                   exc={ValueError: lambda S: S.self.t == I64_MIN}),
        V.Contract("celpy.celtypes:UintType.__neg__", [("self", U64)], ret=None, exc={TypeError: lambda S: True}),
        V.Contract("celpy.celtypes:IntType.__neg__", [("self", I64)], name="base_functions['-_'](IntType)",
                   invoke=lambda run, S: run.call(VNative(ev.base_functions["-_"]), [S.self]),
                   native=lambda N: ev.base_functions["-_"](N["self"]),
                   ret=lambda S, r: z3.And(in_i64(-S.self.t), is_int(r, ct.IntType, -S.self.t)),
                   exc={ValueError: lambda S: S.self.t == I64_MIN}),
        V.Contract("celpy.celtypes:UintType.__neg__", [("self", U64)], name="base_functions['-_'](UintType)",
                   invoke=lambda run, S: run.call(VNative(ev.base_functions["-_"]), [S.self]),
                   native=lambda N: ev.base_functions["-_"](N["self"]),
                   ret=None, exc={TypeError: lambda S: True}),
    ]
    # constructors used by every operator (range check on the way in)
    anyint = V.IntDom(int, None, None, "int")
    cs += [
        V.Contract("celpy.celtypes:IntType.__new__", [("cls", V.ConstDom(ct.IntType, "IntType")), ("source", anyint)],
                   ret=lambda S, r: z3.And(in_i64(S.source.t), is_int(r, ct.IntType, S.source.t)),
                   exc={ValueError: lambda S: z3.Not(in_i64(S.source.t))}),
        V.Contract("celpy.celtypes:UintType.__new__", [("cls", V.ConstDom(ct.UintType, "UintType")), ("source", anyint)],
                   ret=lambda S, r: z3.And(in_u64(S.source.t), is_int(r, ct.UintType, S.source.t)),
                   exc={ValueError: lambda S: z3.Not(in_u64(S.source.t))}),
    ]
    # int64()/uint64() as higher-order wrappers around an arbitrary int-valued operator
    for wname, inr in (("int64", in_i64), ("uint64", in_u64)):
        def mk(wname=wname, inr=inr):
            def invoke(run, S):
                opv = VModel(lambda run, *a, **k: S.v, "arbitrary-operator")
                wrapped = run.call(VNative(getattr(ct, wname)), [opv])
                return run.call(wrapped, [])
            return V.Contract(f"celpy.celtypes:{wname}", [("v", anyint)], invoke=invoke,
                              native=lambda N: getattr(ct, wname)(lambda: N["v"])(),
                              ret=lambda S, r: z3.And(inr(S.v.t), r is S.v),
                              exc={ValueError: lambda S: z3.Not(inr(S.v.t))})
        cs.append(mk())
    # doubles
    d2 = [("self", DBL), ("other", DBL)]
    cs += [
        V.Contract("celpy.celtypes:DoubleType.__truediv__", d2,
                   ret=lambda S, r: is_float(r, ct.DoubleType, z3.fpDiv(RNE, S.self.t, S.other.t))),
        V.Contract("celpy.celtypes:DoubleType.__rtruediv__", d2,
                   ret=lambda S, r: is_float(r, ct.DoubleType, z3.fpDiv(RNE, S.other.t, S.self.t))),
        V.Contract("celpy.celtypes:DoubleType.__neg__", [("self", DBL)],
                   ret=lambda S, r: is_float(r, ct.DoubleType, z3.fpNeg(S.self.t))),
        V.Contract("celpy.celtypes:DoubleType.__mod__", d2, ret=None, exc={TypeError: lambda S: True}),
        V.Contract("celpy.celtypes:DoubleType.__rmod__", d2, ret=None, exc={TypeError: lambda S: True}),
    ]
    for opn, fn in (("_+_", z3.fpAdd), ("_-_", z3.fpSub), ("_*_", z3.fpMul), ("_/_", z3.fpDiv)):
        real = ev.base_functions[opn]
        cs.append(V.Contract(
            "celpy.celtypes:DoubleType.__truediv__", d2, name=f"base_functions[{opn!r}](DoubleType,DoubleType)",
            invoke=(lambda real: lambda run, S: run.call(VNative(real), [S.self, S.other]))(real),
            native=(lambda real: lambda N: real(N["self"], N["other"]))(real),
            # value only: the class of the result is C13's obligation
            ret=(lambda fn: lambda S, r: isinstance(r, VFloat) and z3.Or(
                z3.And(z3.fpIsNaN(r.t), z3.fpIsNaN(fn(RNE, S.self.t, S.other.t))),
                r.t == fn(RNE, S.self.t, S.other.t)))(fn)))
    cs.append(V.Contract(
        "celpy.celtypes:DoubleType.__mod__", d2, name="base_functions['_%_'](DoubleType,DoubleType)",
        invoke=lambda run, S: run.call(VNative(ev.base_functions["_%_"]), [S.self, S.other]),
        native=lambda N: ev.base_functions["_%_"](N["self"], N["other"]),
        ret=None, exc={TypeError: lambda S: True}))
    cs.append(V.Contract(
        "celpy.celtypes:DoubleType.__neg__", [("self", DBL)], name="base_functions['-_'](DoubleType)",
        invoke=lambda run, S: run.call(VNative(ev.base_functions["-_"]), [S.self]),
        native=lambda N: ev.base_functions["-_"](N["self"]),
        ret=lambda S, r: is_float(r, ct.DoubleType, z3.fpNeg(S.self.t))))
    return cs


def lemmas(rep):
    a, b, v, w = z3.Ints("a b v w")
    V.lemma(rep, "lemma:tdiv-overflow", "spec",
            "int64 truncated quotient is out of range exactly for MIN / -1",
            [in_i64(a), in_i64(b), tdiv_rel(a, b, v)], in_i64(v) == z3.Not(z3.And(a == I64_MIN, b == -1)))
    V.lemma(rep, "lemma:tdiv-unique", "spec", "the truncated quotient characterisation determines q",
            [tdiv_rel(a, b, v), tdiv_rel(a, b, w)], v == w)
    V.lemma(rep, "lemma:tdiv-uint-fits", "spec", "uint64 truncated quotient always fits",
            [in_u64(a), in_u64(b), tdiv_rel(a, b, v)], in_u64(v))


def build(rep, tier="quick", seed=0, known=None):
    cs = contracts() + er.c01_rule_contracts()
    run_contracts(cs, rep, known=known)
    lemmas(rep)
    rep.trusted |= {
        "CPython int arithmetic is exact (mathematical integers); // and % are floor division/modulo",
        "CPython float arithmetic is IEEE-754 binary64 round-to-nearest-even; float/0.0 raises ZeroDivisionError",
        "binary operator dispatch as in pyvc.symexec.binop (cross-checked against CPython on one model per path)",
        "z3 5.1.0 and the pyvc VC generator are sound",
    }
    return {}
