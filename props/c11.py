"""C11 - timestamp and duration arithmetic and calendar accessors are exact."""
import datetime
import itertools
import random

import z3

import celpy
import celpy.celtypes as ct
import celpy.evaluation as ev
from contracts.specs import *
from contracts.evaluator_rules import rule_contract, STUB, is_error
from pyvc import verify as V
from pyvc import symexec as se
from pyvc.parallel import run_contracts
from pyvc.values import VInt, VStr, VObj, VNative, VModel, VTuple, NONE

LEVEL = "proof"
T = ct.TimestampType
FIELDS = ("year", "month", "day", "hour", "minute", "second", "microsecond")


class Zone:
    """opaque tzinfo object"""


def F(name):
    return z3.Function("civil_" + name, z3.IntSort(), z3.IntSort(), z3.IntSort())   # (timestamp id, zone id) -> field


ORD = z3.Function("toordinal", z3.IntSort(), z3.IntSort(), z3.IntSort(), z3.IntSort())
ISOWD = z3.Function("isoweekday", z3.IntSort(), z3.IntSort(), z3.IntSort())
WD = z3.Function("weekday", z3.IntSort(), z3.IntSort(), z3.IntSort())


def install_datetime(run, S):
    """datetime is a dependency: its methods are uninterpreted functions of (timestamp, zone)."""
    S.ts = VObj(T, {"_id": VInt(int, z3.Int("ts"))}, label="ts")
    zone_of = {}

    def tz_parse(run, tz_name=None):
        z = VObj(Zone, {"_id": VInt(int, z3.Int("zone"))}, label="zone")
        run.ghost["tz_arg"] = tz_name
        return z
    run.engine.overrides[T.__dict__["tz_parse"].__func__] = tz_parse

    def astimezone(run, self, tz=None):
        w = VObj(datetime.datetime, {"_ts": self.attrs["_id"], "_zone": tz.attrs["_id"]}, label="civil")
        for f in FIELDS:
            w.attrs[f] = VInt(int, F(f)(self.attrs["_id"].t, tz.attrs["_id"].t))
        return w
    run.engine.overrides[datetime.datetime.astimezone] = astimezone
    run.engine.overrides[datetime.datetime.isoweekday] = lambda run, self: VInt(int, ISOWD(self.attrs["_ts"].t, self.attrs["_zone"].t))
    run.engine.overrides[datetime.datetime.weekday] = lambda run, self: VInt(int, WD(self.attrs["_ts"].t, self.attrs["_zone"].t))

    def toordinal(run, self):
        if "_ymd" in self.attrs:
            y, m, d = self.attrs["_ymd"]
            return VInt(int, ORD(y, m, d))
        return VInt(int, ORD(self.attrs["year"].t, self.attrs["month"].t, self.attrs["day"].t))
    run.engine.overrides[datetime.datetime.toordinal] = toordinal

    def dt_new(run, year, month=None, day=None, *a, tzinfo=None, **kw):
        return VObj(datetime.datetime, {"_ymd": (year.t, month.t, day.t), "tzinfo": tzinfo}, label="date")
    run.engine.overrides[datetime.datetime] = dt_new


def getter_contracts():
    cs = []

    def civ(S, f):
        return F(f)(z3.Int("ts"), z3.Int("zone"))
    specs = {
        "getFullYear": lambda S: civ(S, "year"), "getMonth": lambda S: civ(S, "month") - 1, "getDate": lambda S: civ(S, "day"),
        "getDayOfMonth": lambda S: civ(S, "day") - 1,
        "getDayOfYear": lambda S: ORD(civ(S, "year"), civ(S, "month"), civ(S, "day")) - ORD(civ(S, "year"), z3.IntVal(1), z3.IntVal(1)),
        "getDayOfWeek": lambda S: ISOWD(z3.Int("ts"), z3.Int("zone")) % 7,        # Sunday (ISO 7) is 0
        "getHours": lambda S: civ(S, "hour"), "getMinutes": lambda S: civ(S, "minute"), "getSeconds": lambda S: civ(S, "second"),
        "getMilliseconds": lambda S: civ(S, "microsecond") / 1000,
    }
    for name, spec in specs.items():
        for with_tz in (False, True):
            def invoke(run, S, name=name, with_tz=with_tz):
                install_datetime(run, S)
                S.tzarg = VStr(ct.StringType, z3.String("tz_name")) if with_tz else None
                # calendar fields are in their natural ranges (datetime's invariant)
                for f, lo, hi in (("year", 1, 9999), ("month", 1, 12), ("day", 1, 31), ("hour", 0, 23), ("minute", 0, 59),
                                  ("second", 0, 59), ("microsecond", 0, 999999)):
                    t = F(f)(z3.Int("ts"), z3.Int("zone"))
                    run.assume(z3.And(t >= lo, t <= hi))
                run.assume(z3.And(ISOWD(z3.Int("ts"), z3.Int("zone")) >= 1, ISOWD(z3.Int("ts"), z3.Int("zone")) <= 7))
                y, m, d = (F(f)(z3.Int("ts"), z3.Int("zone")) for f in ("year", "month", "day"))
                run.assume(z3.And(ORD(y, m, d) - ORD(y, z3.IntVal(1), z3.IntVal(1)) >= 0, ORD(y, m, d) - ORD(y, z3.IntVal(1), z3.IntVal(1)) <= 365))
                fn = ev.base_functions[name]
                return run.call(VNative(fn), [S.ts] + ([S.tzarg] if with_tz else []))

            def post(S, r, spec=spec, with_tz=with_tz):
                tzseen = S._run.ghost.get("tz_arg", "unset")
                tz_ok = (tzseen is S.tzarg) if with_tz else (tzseen is NONE or tzseen is None)
                return z3.And(z3.BoolVal(bool(tz_ok)), is_int(r, ct.IntType, spec(S)))
            cs.append(V.Contract(f"celpy.celtypes:TimestampType.{name}", [], name=f"timestamp.{name}({'tz' if with_tz else ''})",
                                 invoke=invoke, ret=post, exc={}, cover=False, native=False))
    return cs


def tz_contracts():
    """tz_parse / tz_name_lookup dispatch: no name -> UTC; alias; IANA name; otherwise the +-HH:MM parser."""
    import pendulum
    import pendulum.tz.exceptions
    cs = []

    def invoke(run, S, kind):
        calls = []
        S.calls = calls

        def timezone(run, name):
            calls.append(("timezone", name))
            if kind == "invalid" and not (is_concrete_str(name, "UTC")):
                raise se.PyRaise(VObj(pendulum.tz.exceptions.InvalidTimezone, {"args": VTuple([name])}))
            return VObj(Zone, {"name": name}, label="iana-zone")
        run.engine.overrides[ct.timezone] = timezone

        def offset(run, clsv, tz_name):
            calls.append(("offset", tz_name))
            return VObj(Zone, {"offset_of": tz_name}, label="fixed-offset")
        run.engine.overrides[T.__dict__["tz_offset_parse"].__func__] = offset
        if kind == "none":
            arg = NONE
        elif kind == "empty":
            arg = VStr(ct.StringType, "")
        else:
            arg = VStr(ct.StringType, z3.String("tz_name"))
            run.assume(z3.Length(arg.t) > 0)
        S.arg = arg
        return run.call(VNative(T.tz_parse), [arg])

    def is_concrete_str(v, text):
        try:
            return se.conc(v) == text
        except Exception:
            return False

    def post(S, r, kind):
        calls = S.calls
        if kind in ("none", "empty"):
            return len(calls) == 1 and calls[0][0] == "timezone" and is_concrete_str(calls[0][1], "UTC") and r.label == "iana-zone"
        if kind == "valid":
            return len(calls) == 1 and calls[0][0] == "timezone" and calls[0][1].t.eq(S.arg.t) and r.label == "iana-zone"
        return (len(calls) == 2 and calls[0][0] == "timezone" and calls[1][0] == "offset" and calls[1][1] is S.arg
                and r.label == "fixed-offset")
    for kind in ("none", "empty", "valid", "invalid"):
        cs.append(V.Contract("celpy.celtypes:TimestampType.tz_parse", [], name=f"tz_parse({kind} zone name)",
                             invoke=(lambda kind: lambda run, S: invoke(run, S, kind))(kind),
                             ret=(lambda kind: lambda S, r: post(S, r, kind))(kind), exc={}, cover=False, native=False))
    return cs


def rewrap_contracts():
    """timestamp +/- duration: the datetime the superclass computed is re-wrapped field by field (tzinfo included),
    NotImplemented is passed through, a timedelta result becomes a (range-checked) Duration."""
    cs = []
    for meth in ("__add__", "__radd__", "__sub__"):
        for kind in ("datetime", "notimplemented") + (("timedelta",) if meth == "__sub__" else ()):
            def invoke(run, S, meth=meth, kind=kind):
                S.ts = VObj(T, {}, label="ts")
                S.other = VObj(ct.DurationType, {}, label="other")
                S.res = None
                if kind == "datetime":
                    S.res = VObj(datetime.datetime, {f: VInt(int, z3.Int("r_" + f)) for f in FIELDS}, label="super-result")
                    S.res.attrs["tzinfo"] = VObj(Zone, {}, label="tz") if run.branch(z3.Bool("aware")) else NONE
                elif kind == "timedelta":
                    S.res = VObj(datetime.timedelta, {}, label="delta")
                sup = VNative(NotImplemented) if kind == "notimplemented" else S.res
                base = {"__add__": datetime.datetime.__add__, "__radd__": datetime.datetime.__radd__, "__sub__": datetime.datetime.__sub__}[meth]
                run.engine.models.METHODS[(datetime.datetime, meth)] = lambda run, self, other: sup

                def dt_new(run, clsv, *a, **kw):
                    return VObj(clsv.obj, dict(kw), label="rewrapped")
                run.engine.models.METHODS[(datetime.datetime, "__new__")] = dt_new
                run.engine.overrides[ct.DurationType] = lambda run, x, *a: VObj(ct.DurationType, {"from": x}, label="duration")
                return run.call(run.getattr(S.ts, meth), [S.other])

            def post(S, r, kind=kind):
                if kind == "notimplemented":
                    return isinstance(r, VNative) and r.obj is NotImplemented
                if kind == "timedelta":
                    return isinstance(r, VObj) and r.cls is ct.DurationType and r.attrs.get("from") is S.res
                if not (isinstance(r, VObj) and r.cls is T):
                    return False
                same = all(r.attrs.get(f) is S.res.attrs[f] for f in FIELDS)
                tz = r.attrs.get("tzinfo")
                src = S.res.attrs["tzinfo"]
                tz_ok = (tz is src) if src is not NONE else (isinstance(tz, VNative) and tz.obj is datetime.timezone.utc)
                return bool(same and tz_ok)
            cs.append(V.Contract(f"celpy.celtypes:TimestampType.{meth}", [], name=f"TimestampType.{meth} -> {kind}", invoke=invoke,
                                 ret=post, exc={}, cover=False, native=False))
    # out-of-range results are evaluation errors: addition() converts OverflowError / ValueError
    from contracts.templates import HoleDom
    for exc in (OverflowError, ValueError):
        def invoke(run, S, exc=exc):
            from contracts.evaluator_rules import install, sym_evaluator, sym_tree
            install(run.engine)
            thrower = VModel(lambda run, a, b: (_ for _ in ()).throw(se.PyRaise(VObj(exc, {"args": VTuple([VStr(str, "date value out of range")])}))), "_+_")
            e = sym_evaluator(run, functions={"_+_": None, "_-_": None})
            for p in e.attrs["activation"].attrs["functions"].attrs["maps"].items[0].pairs:
                p[1] = thrower
            S.left, S.right = VObj(T, {}, label="t"), VObj(ct.DurationType, {}, label="d")
            tree = sym_tree(run, ("addition", [("addition_add", [STUB("left")]), STUB("right")]), S)
            return run.call(run.getattr(e, "addition"), [tree])
        cs.append(V.Contract("celpy.evaluation:Evaluator.addition", [], name=f"addition: {exc.__name__} from time arithmetic is an error value",
                             invoke=invoke, ret=lambda S, r: is_error(r), exc={}, cover=False, native=False))
    return cs


def offset_table(rep):
    """tz_offset_parse on EVERY string of its regular language ^([+-]?)(\\d\\d?):(\\d\\d)$ (finite: 33 000 strings)."""
    n = bad = 0
    first = None
    for sign in ("", "+", "-"):
        for hh in [f"{h}" for h in range(10)] + [f"{h:02d}" for h in range(100)]:
            for mm in [f"{m:02d}" for m in range(100)]:
                text = f"{sign}{hh}:{mm}"
                n += 1
                want = (int(hh) * 60 + int(mm)) * (-1 if sign == "-" else 1)
                try:
                    tz = T.tz_offset_parse(text)
                    ok = abs(want) < 24 * 60 and tz.utcoffset(None) == datetime.timedelta(minutes=want)
                except ValueError:
                    ok = abs(want) >= 24 * 60       # datetime.timezone refuses offsets of 24h or more: an error, not a value
                if not ok:
                    bad += 1
                    first = first or text
    o = V.table_obl(rep, "tz_offset_parse[all 33000 matching strings]", "TimestampType.tz_offset_parse",
                    "text +-HH:MM denotes +-(60*HH+MM) minutes; 24h or more is an error", bad == 0,
                    f"input: {first!r}" if first else f"{n} strings")
    if bad:
        o.replay = {"replayed": True, "confirmed": True, "inputs": {"tz_name": first}, "observed": f"{bad} of {n} strings wrong"}


# ------------------------------------------------------------------ bounded: independent proleptic Gregorian calendar
def civil_from_days(z):
    """days since 1970-01-01 -> (y, m, d)  (Howard Hinnant's algorithm)"""
    z += 719468
    era = (z if z >= 0 else z - 146096) // 146097
    doe = z - era * 146097
    yoe = (doe - doe // 1460 + doe // 36524 - doe // 146096) // 365
    y = yoe + era * 400
    doy = doe - (365 * yoe + yoe // 4 - yoe // 100)
    mp = (5 * doy + 2) // 153
    d = doy - (153 * mp + 2) // 5 + 1
    m = mp + 3 if mp < 10 else mp - 9
    return (y + 1 if m <= 2 else y), m, d


def days_from_civil(y, m, d):
    y -= m <= 2
    era = (y if y >= 0 else y - 399) // 400
    yoe = y - era * 400
    doy = (153 * (m + (-3 if m > 2 else 9)) + 2) // 5 + d - 1
    doe = yoe * 365 + yoe // 4 - yoe // 100 + doy
    return era * 146097 + doe - 719468


def bounded(rep, tier, seed):
    rng = random.Random(seed)
    fails = []
    n = 0
    bf = ev.base_functions
    step = 1 if tier == "thorough" else 97
    offsets = ["-14:00", "-09:30", "-03:30", "-00:30", "+00:00", "+00:30", "+05:45", "+14:00"]
    epoch = datetime.datetime(1970, 1, 1, tzinfo=datetime.timezone.utc)
    lo, hi = days_from_civil(1, 1, 2), days_from_civil(9999, 12, 30)
    days = list(range(lo, hi, step * 37)) + [days_from_civil(y, 1, 1) for y in (1, 4, 100, 400, 1900, 2000, 2024, 9999)] + \
        [days_from_civil(y, 12, 31) for y in (1, 4, 100, 400, 1900, 2000, 2023, 9998)] + [days_from_civil(2024, 2, 29), days_from_civil(2023, 3, 1)]
    for dn in days:
        if not lo <= dn <= hi:
            continue
        for us_of_day in (0, 86399999999, rng.randrange(86400000000)):
            inst = dn * 86400000000 + us_of_day        # microseconds since the epoch (UTC)
            t = T(epoch + datetime.timedelta(microseconds=inst))
            off = rng.choice(offsets)
            sign = -1 if off[0] == "-" else 1
            omin = sign * (int(off[1:3]) * 60 + int(off[4:6]))
            local = inst + omin * 60000000
            ld, lus = divmod(local, 86400000000)
            if not lo - 1 <= ld <= hi + 1:
                continue
            y, m, d = civil_from_days(ld)
            want = {"getFullYear": y, "getMonth": m - 1, "getDate": d, "getDayOfMonth": d - 1, "getDayOfYear": ld - days_from_civil(y, 1, 1),
                    "getDayOfWeek": (ld + 4) % 7, "getHours": lus // 3600000000, "getMinutes": lus // 60000000 % 60,
                    "getSeconds": lus // 1000000 % 60, "getMilliseconds": lus // 1000 % 1000}
            for g, w in want.items():
                n += 1
                try:
                    got = bf[g](t, ct.StringType(off))
                    ok = type(got) is ct.IntType and got == w
                except Exception as ex:
                    got, ok = repr(ex)[:80], False
                if not ok:
                    fails.append({"timestamp": str(t), "zone": off, "getter": g, "observed": repr(got), "expected": w})
            if len(fails) > 5:
                break
    # arithmetic laws on instants (microsecond resolution)
    for _ in range(3000 if tier == "thorough" else 300):
        n += 1
        a = rng.randrange(days_from_civil(2, 1, 1), days_from_civil(9998, 1, 1)) * 86400000000 + rng.randrange(86400000000)
        b = rng.randrange(days_from_civil(2, 1, 1), days_from_civil(9998, 1, 1)) * 86400000000 + rng.randrange(86400000000)
        ta, tb = T(epoch + datetime.timedelta(microseconds=a)), T(epoch + datetime.timedelta(microseconds=b))
        try:
            d = bf["_-_"](ta, tb)
            ok = type(d) is ct.DurationType and d == datetime.timedelta(microseconds=a - b) and bf["_+_"](tb, d) == ta and \
                bf["_-_"](bf["_+_"](tb, d), d) == tb and bf["_-_"](bf["_+_"](tb, d), tb) == d
        except Exception as ex:
            ok = abs(a - b) > 315576000000 * 10**6          # outside the duration range: an error is right
            if not ok:
                fails.append({"a": str(ta), "b": str(tb), "observed": repr(ex)[:100]})
                continue
        if not ok:
            fails.append({"a": str(ta), "b": str(tb), "law": "t1 - t2 / (t + d) - d / (t + d) - t"})
    # the same laws on timestamps WRITTEN with different UTC offsets: a difference is a difference of instants
    def iso(inst_us, off):
        sign = -1 if off[0] == "-" else 1
        omin = sign * (int(off[1:3]) * 60 + int(off[4:6]))
        loc = epoch + datetime.timedelta(microseconds=inst_us + omin * 60000000)
        return f"{loc.year:04d}-{loc.month:02d}-{loc.day:02d}T{loc.hour:02d}:{loc.minute:02d}:{loc.second:02d}{off}"
    for _ in range(1500 if tier == "thorough" else 150):
        n += 1
        a = rng.randrange(days_from_civil(3, 1, 1), days_from_civil(9997, 1, 1)) * 86400000000 + rng.randrange(86400) * 1000000
        b = a + rng.choice([0, 1, -1, 3600, -7200, 86400, rng.randrange(-10**9, 10**9)]) * 1000000
        oa, ob = rng.choice(offsets), rng.choice(offsets)
        try:
            ta, tb = T(iso(a, oa)), T(iso(b, ob))
            d = bf["_-_"](ta, tb)
            ok = type(d) is ct.DurationType and d == datetime.timedelta(microseconds=a - b) and bool(bf["_==_"](bf["_+_"](tb, d), ta)) \
                and bool(bf["_<_"](ta, tb)) == (a < b) and bool(bf["_==_"](ta, tb)) == (a == b)
        except Exception as ex:
            ok = False
            d = repr(ex)[:80]
        if not ok:
            fails.append({"a": iso(a, oa), "b": iso(b, ob), "law": "t1 - t2 is the difference of the instants, whatever offsets they are written with", "observed": repr(d)})
    # sums with fractional seconds up to the very end of the range: (t + d) - d == t and (t + d) - t == d wherever t + d is in range
    last = datetime.datetime(9999, 12, 31, 23, 59, 59, 999999, tzinfo=datetime.timezone.utc)
    for back_us, add_us in ((1500000, 1000000), (999999, 999999), (2000000, 1500000), (1, 1), (500000, 250000), (86400000000, 86399999999)):
        n += 1
        t0 = last - datetime.timedelta(microseconds=back_us)
        try:
            t, d = T(t0), ct.DurationType(datetime.timedelta(microseconds=add_us))
            sm = bf["_+_"](t, d)
            ok = type(sm) is ct.TimestampType and bool(bf["_==_"](bf["_-_"](sm, d), t)) and bool(bf["_==_"](bf["_-_"](sm, t), d))
            obs = repr(sm)
        except Exception as ex:
            ok, obs = False, repr(ex)[:100]
        if not ok:
            fails.append({"t": str(t0), "d_us": add_us, "law": "(t + d) - d == t and (t + d) - t == d for an in-range sum", "observed": obs})
    # accessors with IANA zone names, historical offsets with a seconds part included (reference: the standard library's zoneinfo)
    try:
        import zoneinfo
        zones = [("Africa/Monrovia", 1970), ("Europe/Amsterdam", 1930), ("America/New_York", 1880), ("Asia/Kolkata", 2020), ("Australia/Lord_Howe", 2021),
                 ("Pacific/Apia", 2011), ("Europe/London", 2024), ("UTC", 2000)]
        # instants within a few hours of daylight-saving transitions (both directions, both hemispheres)
        near = [("America/New_York", datetime.datetime(2021, 3, 14, h, 30, tzinfo=datetime.timezone.utc)) for h in range(3, 10)] + \
               [("America/New_York", datetime.datetime(2021, 11, 7, h, 30, tzinfo=datetime.timezone.utc)) for h in range(3, 9)] + \
               [("Europe/London", datetime.datetime(2021, 3, 28, h, 30, tzinfo=datetime.timezone.utc)) for h in range(0, 4)] + \
               [("Europe/London", datetime.datetime(2021, 10, 31, h, 30, tzinfo=datetime.timezone.utc)) for h in range(0, 4)] + \
               [("Australia/Sydney", datetime.datetime(2021, 4, 3, h, 30, tzinfo=datetime.timezone.utc)) for h in range(13, 18)]
        for zn, year in zones + [(zn_, inst_) for zn_, inst_ in near]:
            z = zoneinfo.ZoneInfo(zn)
            fixed = year if isinstance(year, datetime.datetime) else None
            for _ in range(1 if fixed is not None else (40 if tier == "thorough" else 6)):
                inst = fixed if fixed is not None else datetime.datetime(year, rng.randrange(1, 13), rng.randrange(1, 28), rng.randrange(24), rng.randrange(60), rng.randrange(60), tzinfo=datetime.timezone.utc)
                loc = inst.astimezone(z)
                t = T(inst)
                want = {"getFullYear": loc.year, "getMonth": loc.month - 1, "getDate": loc.day, "getDayOfMonth": loc.day - 1, "getDayOfYear": loc.timetuple().tm_yday - 1,
                        "getDayOfWeek": (loc.weekday() + 1) % 7, "getHours": loc.hour, "getMinutes": loc.minute, "getSeconds": loc.second}
                for g, w in want.items():
                    n += 1
                    try:
                        got = bf[g](t, ct.StringType(zn))
                        ok = type(got) is ct.IntType and got == w
                    except Exception as ex:
                        got, ok = repr(ex)[:80], False
                    if not ok:
                        fails.append({"timestamp": str(t), "zone": zn, "getter": g, "observed": repr(got), "expected": w})
    except ImportError:
        pass
    # duration text grammar
    for h, m, s, ms in itertools.product((0, 1, 25), (0, 59, 90), (0, 1, 59), (0, 1, 999)):
        for sign in ("", "-", "+"):
            n += 1
            text = f"{sign}{h}h{m}m{s}s{ms}ms"
            want = (h * 3600 + m * 60 + s) * 10**6 + ms * 1000
            want = -want if sign == "-" else want
            try:
                got = ct.DurationType(text)
                ok = got == datetime.timedelta(microseconds=want)
            except Exception as ex:
                got, ok = repr(ex)[:80], False
            if not ok:
                fails.append({"duration": text, "observed": repr(got), "expected_us": want})
    for text, want_us in (("1.5h", 5400 * 10**6), ("300ms", 300000), ("2h45m", 9900 * 10**6), ("-1.5h", -5400 * 10**6), ("1us", 1), ("1000ns", 1),
                          ("315576000000s", 315576000000 * 10**6)):
        n += 1
        try:
            got = ct.DurationType(text)
            ok = got == datetime.timedelta(microseconds=want_us)
        except Exception as ex:
            got, ok = repr(ex)[:80], False
        if not ok:
            fails.append({"duration": text, "observed": repr(got), "expected_us": want_us})
    for text in ("315576000001s", "-315576000001s"):
        n += 1
        try:
            got = ct.DurationType(text)
            fails.append({"duration": text, "observed": repr(got), "expected": "range error"})
        except ValueError:
            pass
    for expr in ("duration('315576000000s') - duration('-1s')", "-duration('-315576000000s') + duration('1s')",
                 "timestamp('9999-12-31T23:59:59Z') + duration('1s')", "timestamp('0001-01-01T00:00:00Z') - duration('1s')"):
        n += 1
        for runner in (celpy.InterpretedRunner, celpy.CompiledRunner):
            celpy.CELParser.CEL_PARSER = None
            env = celpy.Environment(runner_class=runner)
            try:
                got = env.program(env.compile(expr)).evaluate({})
                fails.append({"runner": runner.__name__, "cel": expr, "observed": repr(got), "expected": "evaluation error"})
            except ev.CELEvalError:
                pass
            except Exception as ex:
                fails.append({"runner": runner.__name__, "cel": expr, "observed": f"escaped {type(ex).__name__}"})
    celpy.CELParser.CEL_PARSER = None
    rep.bounded.append({"function": "calendar accessors vs an independent proleptic Gregorian computation; arithmetic laws; duration text",
                        "cases": n, "distinct_nontrivial": n, "bound": f"one day in {step * 37} over years 1..9999 plus year boundaries x 3 instants x 8 offsets; random instants; duration grid",
                        "failures": len(fails)})
    if fails:
        o = rep.add(V.Obl("time#bounded", "B", "TimestampType / DurationType", "bounded stand-in against an independent calendar"))
        o.status, o.backend = "refuted", "cpython"
        o.detail = "failing input: " + repr(fails[0])[:500]
        o.replay = {"replayed": True, "confirmed": True, "inputs": fails[0], "more": fails[1:6]}


def build(rep, tier="quick", seed=0, known=None):
    run_contracts(getter_contracts() + tz_contracts() + rewrap_contracts(), rep, known=known)
    offset_table(rep)
    bounded(rep, tier, seed)
    rep.trusted |= {
        "datetime / timedelta: exact integer-microsecond arithmetic on the proleptic Gregorian calendar (astimezone, field "
        "accessors, toordinal, isoweekday are uninterpreted functions in the proofs; checked against an independent calendar in the bounded part)",
        "pendulum.timezone (IANA data) and datetime.timezone",
        "float seconds of timedelta / fsum in the duration text path: bounded only",
    }
    return {}
