"""C02 - logical operators absorb errors commutatively; conditionals are lazy."""
from contracts import logic, logic_rules
from pyvc.parallel import run_contracts

LEVEL = "proof"


def build(rep, tier="quick", seed=0, known=None):
    cs = logic.fn_contracts() + logic_rules.rule_contracts()
    run_contracts(cs, rep, known=known)
    logic.spec_lemmas(rep)
    logic_rules.extra(rep, tier)
    rep.trusted |= {
        "CPython semantics as modelled in pyvc (isinstance on the real classes, truthiness, exception matching)",
        "lark.visitors.Interpreter / lark.Tree source is executed symbolically (not assumed)",
        "z3 5.1.0 and the pyvc VC generator are sound",
    }
    return {}
