"""C17 - Custodian helper functions implement their set, CIDR, tag and ARN semantics."""
import fnmatch
import ipaddress
import itertools
import random

import z3

import celpy
import celpy.c7nlib as L
import celpy.celtypes as ct
import celpy.evaluation as ev
from contracts.specs import *
from pyvc import verify as V
from pyvc import symexec as se
from pyvc.parallel import run_contracts
from pyvc.values import VInt, VStr, VList, VDict, VObj, VNative, VTuple, VZSeq, VModel, NONE

LEVEL = "proof"
INTSEQ = z3.SeqSort(z3.IntSort())
STRSEQ = z3.SeqSort(z3.StringSort())


def seq_dom(sort, elem_cls, tag):
    return V.FnDom(lambda run, name: VZSeq(ct.ListType, z3.Const(name, sort), elem_cls), f"list<{tag}> of unknown length")


SEQS = [seq_dom(INTSEQ, ct.IntType, "int"), seq_dom(STRSEQ, ct.StringType, "string")]


def contains(seq, x):
    return z3.Contains(seq, z3.Unit(x))


def set_contracts():
    cs = []
    for dom in SEQS:
        a2 = [("left", dom), ("right", dom)]

        def xvar(S):
            return z3.Const("elem_x", S.left.t.sort().basis())
        cs.append(V.Contract("celpy.c7nlib:intersect", a2,
                             ret=lambda S, r: is_bool(r, ct.BoolType, z3.Exists([xvar(S)], z3.And(contains(S.left.t, xvar(S)), contains(S.right.t, xvar(S))))),
                             exc={}, cover=False, native=False))
        cs.append(V.Contract("celpy.c7nlib:difference", a2,
                             ret=lambda S, r: is_bool(r, ct.BoolType, z3.Exists([xvar(S)], z3.And(contains(S.left.t, xvar(S)), z3.Not(contains(S.right.t, xvar(S)))))),
                             exc={}, cover=False, native=False))
        cs.append(V.Contract("celpy.c7nlib:unique_size", [("collection", dom)],
                             ret=lambda S, r: is_int(r, ct.IntType, z3.Function("distinct_count", S.collection.t.sort(), z3.IntSort())(S.collection.t)),
                             # the count of distinct elements always fits: a raise is never allowed
                             exc={}, requires=lambda S: in_i64(z3.Function("distinct_count", S.collection.t.sort(), z3.IntSort())(S.collection.t)),
                             cover=False, native=False))
    return cs


LOWER = z3.Function("str_lower", z3.StringSort(), z3.StringSort())
STRIP = z3.Function("str_strip", z3.StringSort(), z3.StringSort())
FNMATCH = z3.Function("fnmatch", z3.StringSort(), z3.StringSort(), z3.BoolSort())


def string_contracts():
    def hook(run, name, self, args, kw):
        if name == "lower" and not args:
            return VStr(str, LOWER(self.t))
        if name == "strip" and not args:
            return VStr(str, STRIP(self.t))
        raise se.Unsupported(f"str.{name} on symbolic text")
    STR = V.StrDom(ct.StringType)

    def invoke_norm(run, S):
        run.ghost["str_method"] = hook
        return run.call(VNative(L.normalize), [S.string])

    def invoke_glob(run, S):
        run.engine.overrides[fnmatch.fnmatch] = lambda run, name, pat: se.mk_bool(run, FNMATCH(name.t, pat.t))
        return run.call(VNative(L.glob), [S.text, S.pattern])
    return [
        V.Contract("celpy.c7nlib:normalize", [("string", STR)], invoke=invoke_norm,
                   ret=lambda S, r: isinstance(r, VStr) and r.cls is ct.StringType and r.t == STRIP(LOWER(S.string.t)),
                   exc={}, cover=False, native=False),
        V.Contract("celpy.c7nlib:glob", [("text", STR), ("pattern", STR)], invoke=invoke_glob,
                   ret=lambda S, r: is_bool(r, ct.BoolType, FNMATCH(S.text.t, S.pattern.t)), exc={}, cover=False, native=False),
    ]


def tag(run, i):
    return VDict(ct.MapType, [[VStr(ct.StringType, "Key"), VStr(ct.StringType, z3.String(f"key{i}"))],
                              [VStr(ct.StringType, "Value"), VObj(ct.StringType, {}, label=f"value{i}")]], {})


def key_contracts():
    cs = []
    for n in (0, 1, 2, 3):
        def invoke(run, S, n=n):
            S.tags = [tag(run, i) for i in range(n)]
            S.target = VStr(ct.StringType, z3.String("target"))
            return run.call(VNative(L.key), [VList(ct.ListType, S.tags), S.target])

        def post(S, r, n=n):
            # the Value of the FIRST tag whose Key is the target, else null
            conds = []
            earlier = []
            for t in S.tags:
                k = t.pairs[0][1].t
                hit = z3.And(k == S.target.t, *[z3.Not(e) for e in earlier])
                conds.append(z3.Implies(hit, z3.BoolVal(r is t.pairs[1][1])))
                earlier.append(k == S.target.t)
            none = z3.Implies(z3.And([z3.Not(e) for e in earlier]) if earlier else z3.BoolVal(True), z3.BoolVal(r is NONE))
            return z3.And(none, *conds)
        cs.append(V.Contract("celpy.c7nlib:key", [], name=f"key(tags[{n}], target)", invoke=invoke, ret=post, exc={}, cover=False, native=False))
    return cs


def arn_contracts():
    """ARN = 'arn' + ':' + f1 + ':' ... with k colon-free fields; split(':') inverts the join (builtin semantics)."""
    cs = []
    names5 = ("partition", "service", "region", "account-id", "resource-id")
    names6 = ("partition", "service", "region", "account-id", "resource-type", "resource-id")
    for k in range(0, 9):
        for field in sorted(set(names6)):
            def invoke(run, S, k=k, field=field):
                S.fields = [VStr(str, z3.String(f"f{i}")) for i in range(k)]
                S.arn = VStr(ct.StringType, z3.String("arn_text"))

                def hook(run, name, self, args, kw):
                    if name == "split" and self is S.arn and len(args) == 1 and se.conc(args[0]) == ":":
                        return VList(list, [VStr(str, "arn")] + S.fields)
                    raise se.Unsupported(f"str.{name} on symbolic text")
                run.ghost["str_method"] = hook
                return run.call(VNative(L.arn_split), [S.arn, VStr(ct.StringType, field)])

            def post(S, r, k=k, field=field):
                names = {5: names5, 6: names6}.get(k)
                if names is None or field not in names:
                    return False
                want = S.fields[names.index(field)]
                return isinstance(r, VStr) and r.cls is ct.StringType and r.t == want.t
            okcase = (k == 5 and field in names5) or k == 6
            cs.append(V.Contract("celpy.c7nlib:arn_split", [], name=f"arn_split({k} fields, {field!r})", invoke=invoke,
                                 ret=post if okcase else None,
                                 exc={} if okcase else {KeyError: lambda S: True, ValueError: lambda S: True},
                                 cover=False, native=False))
    # not an ARN at all
    def invoke_bad(run, S):
        S.arn = VStr(ct.StringType, z3.String("arn_text"))
        S.head = VStr(str, z3.String("head"))
        run.assume(S.head.t != z3.StringVal("arn"))

        def hook(run, name, self, args, kw):
            if name == "split" and self is S.arn:
                return VList(list, [S.head] + [VStr(str, z3.String(f"f{i}")) for i in range(5)])
            raise se.Unsupported(name)
        run.ghost["str_method"] = hook
        return run.call(VNative(L.arn_split), [S.arn, VStr(ct.StringType, "region")])
    cs.append(V.Contract("celpy.c7nlib:arn_split", [], name="arn_split(prefix is not 'arn')", invoke=invoke_bad, ret=None,
                         exc={ValueError: lambda S: True}, cover=False, native=False))
    return cs


class Net:
    """opaque ipaddress network / address objects"""


SUPERNET = z3.Function("supernet_of", z3.IntSort(), z3.IntSort(), z3.BoolSort())
ADDR_IN = z3.Function("address_in_network", z3.IntSort(), z3.IntSort(), z3.BoolSort())


def cidr_contracts():
    cs = []

    def mk(run, name, cls):
        return VObj(cls, {"_id": VInt(int, z3.Int(name))}, label=name)
    for other_kind in ("none", "network", "address"):
        def invoke(run, S, other_kind=other_kind):
            S.n = mk(run, "n", L.IPv4Network)
            S.x = NONE if other_kind == "none" else mk(run, "x", L.IPv4Network if other_kind == "network" else ipaddress.IPv4Address)
            run.engine.overrides[ipaddress._BaseNetwork.supernet_of] = lambda run, self, other: se.mk_bool(run, SUPERNET(self.attrs["_id"].t, other.attrs["_id"].t))
            run.engine.overrides[ipaddress._BaseNetwork.__contains__] = lambda run, self, other: se.mk_bool(run, ADDR_IN(other.attrs["_id"].t, self.attrs["_id"].t))
            return run.call(run.getattr(S.n, "__contains__"), [S.x])

        def post(S, r, other_kind=other_kind):
            if other_kind == "none":
                want = z3.BoolVal(False)
            elif other_kind == "network":
                want = SUPERNET(S.n.attrs["_id"].t, S.x.attrs["_id"].t)
            else:
                want = ADDR_IN(S.x.attrs["_id"].t, S.n.attrs["_id"].t)
            return isinstance(r, VInt) and (r.t != 0) == want
        cs.append(V.Contract("celpy.c7nlib:IPv4Network.__contains__", [], name=f"IPv4Network.__contains__({other_kind})",
                             invoke=invoke, ret=post, exc={}, cover=False, native=False))
    return cs


def context_contracts():
    """The filter context is visible during the evaluation and cleared afterwards - also when the evaluation fails."""
    cs = []
    for fails in (False, True):
        def invoke(run, S, fails=fails):
            S.filter = VObj(Net, {}, label="the-filter")
            seen = []
            S.seen = seen
            gkey = (id(L.__dict__), "C7N")

            def evaluate(run, self, context=None):
                cur = run.global_overlay.get(gkey, se.lift(L.__dict__.get("C7N")))
                seen.append(cur)
                if fails:
                    k = run.choose(2, "failure-kind")
                    raise se.PyRaise(VObj(ev.CELEvalError if k == 0 else RuntimeError, {"args": VTuple([])}))
                return VInt(ct.IntType, 42)
            run.engine.overrides[ev.Evaluator.evaluate] = evaluate
            run.engine.overrides[L.C7N_Interpreted_Runner.new_activation] = lambda run, self: VObj(ev.Activation, {}, label="act")
            run.engine.overrides[ev.Evaluator.__init__] = lambda run, self, ast=None, activation=None: NONE
            runner = VObj(L.C7N_Interpreted_Runner, {"ast": NONE}, label="runner")
            S.gkey = gkey
            return run.call(run.getattr(runner, "evaluate"), [VDict(dict, []), S.filter])

        def after(S):
            g = S._run.global_overlay
            cleared = S.gkey in g and g[S.gkey] is NONE
            during = len(S.seen) == 1 and isinstance(S.seen[0], VObj) and S.seen[0].cls is L.C7NContext and \
                S.seen[0].attrs.get("filter") is S.filter
            return bool(cleared and during)
        if fails:
            cs.append(V.Contract("celpy.c7nlib:C7N_Interpreted_Runner.evaluate", [], name="C7N_Interpreted_Runner.evaluate (evaluation fails)",
                                 invoke=invoke, ret=None, exc={ev.CELEvalError: after, RuntimeError: after}, cover=False, native=False))
        else:
            cs.append(V.Contract("celpy.c7nlib:C7N_Interpreted_Runner.evaluate", [], name="C7N_Interpreted_Runner.evaluate (evaluation succeeds)",
                                 invoke=invoke, ret=lambda S, r: after(S) and isinstance(r, VInt), exc={}, cover=False, native=False))
    return cs


def tables(rep):
    """Every name in FUNCTIONS is bound to the same-named module function."""
    for name, fn in L.FUNCTIONS.items():
        ok = getattr(L, name, None) is fn and callable(fn)
        V.table_obl(rep, f"FUNCTIONS[{name}]", "c7nlib.FUNCTIONS", "bound to the same-named function of the module", ok, f"input: {name} -> {fn!r}")


def bounded(rep, tier, seed):
    rng = random.Random(seed)
    fails = []
    n = 0
    # CIDR containment on a /28 universe, every prefix length, against first principles on integers
    def as_range(txt):
        if "/" in txt:
            net = ipaddress.ip_network(txt)
            return int(net.network_address), int(net.broadcast_address)
        a = int(ipaddress.ip_address(txt))
        return a, a
    base = int(ipaddress.ip_address("10.0.0.0"))
    nets = []
    for plen in range(24, 33):
        step = 2 ** (32 - plen)
        for start in range(base, base + 32, step):
            if start % step == 0:
                nets.append(f"{ipaddress.ip_address(start)}/{plen}")
    nets += ["0.0.0.0/0", "0.0.0.0/1", "10.0.0.0/8", "10.0.0.0/16", "128.0.0.0/1"]
    addrs = [str(ipaddress.ip_address(base + i)) for i in (0, 1, 15, 16, 31, 32)] + ["9.255.255.255", "0.0.0.0", "255.255.255.255"]
    pool = nets if tier == "thorough" else rng.sample(nets, min(len(nets), 28))
    for ntxt in pool:
        nlo, nhi = as_range(ntxt)
        for xtxt in pool + addrs:
            n += 1
            xlo, xhi = as_range(xtxt)
            want = nlo <= xlo and xhi <= nhi
            got = L.parse_cidr(ntxt).contains(L.parse_cidr(xtxt))
            if bool(got) != want:
                fails.append({"n": ntxt, "x": xtxt, "observed": got, "expected": want})
        n += 1
        if L.size_parse_cidr(ct.StringType(ntxt)) != int(ntxt.split("/")[1]):
            fails.append({"size_parse_cidr": ntxt})
    # versions
    vs = ["1.0", "1.2", "1.10", "1.2.3", "2.0", "10.0", "1.2.10", "1.02", "0.9.9"]
    for a, b in itertools.product(vs, repeat=2):
        n += 1
        ka, kb = [int(p) for p in a.split(".")], [int(p) for p in b.split(".")]
        while len(ka) < 3:
            ka.append(0)
        while len(kb) < 3:
            kb.append(0)
        if (L.version(a) < L.version(b)) != (ka < kb) or (L.version(a) == L.version(b)) != (ka == kb):
            fails.append({"version": [a, b]})
    # glob / normalize / marked_key / sets on concrete values, through CEL with the FUNCTIONS binding
    celpy.CELParser.CEL_PARSER = None
    env = celpy.Environment(annotations=dict(L.DECLARATIONS))
    def cel(text, **b):
        return env.program(env.compile(text), functions=L.FUNCTIONS).evaluate(b)
    cases = [('intersect(["a","b"], ["b","c"])', True), ('intersect(["a"], ["b"])', False), ('difference(["a","b"], ["b"])', True),
             ('difference(["a"], ["a","b"])', False), ('unique_size(["a","a","b"])', 2), ('normalize("  AbC ")', "abc"),
             ('glob("web-01", "web-*")', True), ('glob("db", "web-*")', False), ('[1,2].intersect([2,3])', True),
             ('arn_split("arn:aws:s3:us-east-1:123:bucket/key", "account-id")', "123"),
             ('arn_split("arn:aws:sns:us-east-1:123:topic:name", "resource-type")', "topic")]
    # set helpers against Python sets over small lists with duplicates; glob against fnmatch over a pattern family with bracket classes
    import fnmatch
    pool = ["a", "b", ""]           # the empty string included: a falsy element is an element
    small = [list(t) for k in range(0, 4) for t in itertools.product(pool, repeat=k)]
    for left, right in (([0, 1], [2, 0]), ([0], [0]), ([0, 0], [1]), ([False, True], [False])):
        n += 1
        a, b = ct.ListType([ct.IntType(x) for x in left]), ct.ListType([ct.IntType(x) for x in right])
        try:
            got = (bool(L.intersect(a, b)), bool(L.difference(a, b)), int(L.unique_size(a)))
            ok = got == (bool(set(left) & set(right)), bool(set(left) - set(right)), len(set(left)))
        except Exception as ex:
            ok, got = False, repr(ex)[:80]
        if not ok:
            fails.append({"sets": [left, right], "observed (intersect, difference, unique_size)": got})
    # arn_split returns the field as written (case preserved), for every ARN shape
    for arn, field, want in (("arn:aws:iam::123456789012:role/OrgAdminRole", "resource-id", "role/OrgAdminRole"),
                             ("arn:aws:rds:us-east-1:123:db:MyDBInstance", "resource-id", "MyDBInstance"), ("arn:aws:rds:us-east-1:123:db:MyDBInstance", "resource-type", "db"),
                             ("arn:AWS:s3:::My_Bucket", "resource-id", "My_Bucket"), ("arn:aws:s3:us-east-1:123:bucket/Key", "service", "s3"),
                             ("arn:aws:sns:us-east-1:123:MyTopic", "region", "us-east-1"), ("arn:aws:sns:us-east-1:123:MyTopic", "partition", "aws")):
        n += 1
        try:
            got = L.arn_split(ct.StringType(arn), ct.StringType(field))
            ok = str.__eq__(str(got), want)
        except Exception as ex:
            got, ok = repr(ex)[:80], False
        if not ok:
            fails.append({"arn_split": [arn, field], "observed": repr(got), "expected": want})
    for text, want in ((" Straße ", "straße"), ("  AbC ", "abc"), ("ǅ", "ǆ"), ("İ", "i̇")):
        n += 1
        got = L.normalize(ct.StringType(text))
        if not str.__eq__(str(got), want):
            fails.append({"normalize": text, "observed": repr(got), "expected": want})
    for left in small:
        for right in small[:13]:
            n += 1
            a, b = ct.ListType([ct.StringType(x) for x in left]), ct.ListType([ct.StringType(x) for x in right])
            try:
                ok = bool(L.intersect(a, b)) == bool(set(left) & set(right)) and bool(L.difference(a, b)) == bool(set(left) - set(right)) and \
                    int(L.unique_size(a)) == len(set(left))
                got = (bool(L.intersect(a, b)), bool(L.difference(a, b)), int(L.unique_size(a)))
            except Exception as ex:
                ok, got = False, repr(ex)[:80]
            if not ok:
                fails.append({"sets": [left, right], "observed (intersect, difference, unique_size)": got,
                              "expected": [bool(set(left) & set(right)), bool(set(left) - set(right)), len(set(left))]})
    pats = ["ac", "[ab]c", "[!a]c", "a[0-9]", "a?", "a*", "*c", "[ab]*", "i-[0-9]a", "[ab]c*", "", "a", "[a", "a]"]
    texts = ["ac", "bc", "cc", "a0", "a", "", "abc", "i-0a", "[ab]c", "a?", "[a", "a]"]
    for pt in pats:
        for tx in texts:
            n += 1
            try:
                got = bool(L.glob(ct.StringType(tx), ct.StringType(pt)))
                ok = got == fnmatch.fnmatchcase(tx, pt)
            except Exception as ex:
                got, ok = repr(ex)[:80], False
            if not ok:
                fails.append({"glob": [tx, pt], "observed": got, "expected": fnmatch.fnmatchcase(tx, pt)})
    for text, want in cases:
        n += 1
        try:
            got = cel(text)
            ok = got == want
        except Exception as ex:
            got, ok = repr(ex)[:120], False
        if not ok:
            fails.append({"cel": text, "observed": repr(got), "expected": want})
    tags = ct.ListType([ct.MapType({ct.StringType("Key"): ct.StringType("maid_status"), ct.StringType("Value"): ct.StringType("Resource does not meet policy: stop@2020/09/10")}),
                        ct.MapType({ct.StringType("Key"): ct.StringType("k"), ct.StringType("Value"): ct.StringType("no-structure")})])
    for tgt, want in (("maid_status", ("Resource does not meet policy", "stop")), ("k", None), ("missing", None)):
        n += 1
        got = L.marked_key(tags, ct.StringType(tgt))
        ok = (got is None) if want is None else (got is not None and got["message"] == want[0] and got["action"] == want[1])
        if not ok:
            fails.append({"marked_key": tgt, "observed": repr(got)})
    # context: success / failure sequences through the real runner
    celpy.CELParser.CEL_PARSER = None
    cenv = celpy.Environment(annotations=dict(L.DECLARATIONS), runner_class=L.C7N_Interpreted_Runner)
    seen = []
    def probe():
        seen.append(L.C7N.filter if L.C7N is not None else None)
        return ct.IntType(1)
    good = cenv.program(cenv.compile("probe() == 1"), functions={"probe": probe})
    bad = cenv.program(cenv.compile('arn_split("nope", "region") == ""'), functions=dict(L.FUNCTIONS))
    marker = object()
    for seq in itertools.product("gb", repeat=3):
        for step in seq:
            n += 1
            try:
                (good if step == "g" else bad).evaluate({}, marker)
            except Exception:
                pass
            if L.C7N is not None:
                fails.append({"context_not_cleared_after": "".join(seq), "step": step})
                L.C7N = None
    if any(s is not marker for s in seen):
        fails.append({"context_not_visible": True})
    celpy.CELParser.CEL_PARSER = None
    rep.bounded.append({"function": "c7nlib helpers (cidr, version, glob, sets, marked_key, arn_split, context) on concrete inputs",
                        "cases": n, "distinct_nontrivial": n, "bound": "every aligned prefix 24..32 of a 32-address universe (+ 5 wide nets, 9 addresses); 9 versions; fixed CEL cases; all success/failure sequences of length 3",
                        "failures": len(fails)})
    if fails:
        o = rep.add(V.Obl("c7nlib#bounded", "B", "celpy.c7nlib", "bounded stand-in on concrete inputs"))
        o.status, o.backend = "refuted", "cpython"
        o.detail = "failing input: " + repr(fails[0])[:500]
        o.replay = {"replayed": True, "confirmed": True, "inputs": fails[0], "more": fails[1:4]}


def build(rep, tier="quick", seed=0, known=None):
    cs = set_contracts() + string_contracts() + key_contracts() + arn_contracts() + cidr_contracts() + context_contracts()
    run_contracts(cs, rep, known=known)
    tables(rep)
    bounded(rep, tier, seed)
    rep.trusted |= {
        "builtin set(), &, -, len over list elements with hash/eq-consistent payloads (modelled as membership predicates over z3 sequences)",
        "str.lower/strip, fnmatch.fnmatch, str.split inverting ':'.join for colon-free fields: uninterpreted / structural models",
        "ipaddress: supernet_of and address containment are the oracle's relations (checked on a /27 universe in the bounded part); packaging.Version ordering",
    }
    return {}
