"""C05 - evaluation is a function of expression and bindings, independent of history."""
import itertools
import json
import os
import random
import subprocess
import sys
from concurrent.futures import ThreadPoolExecutor

import z3

import celpy
import celpy.celtypes as ct
import celpy.evaluation as ev
from contracts.specs import *
from pyvc import verify as V
from pyvc import symexec as se
from pyvc.parallel import run_contracts
from pyvc.values import VInt, VStr, VObj, VDict, VList, VNative, VTuple, VModel, NONE

LEVEL = "proof"
VERIF = V.VERIF


# ------------------------------------------------------------------ frame obligations (deep ownership of the per-call copy)
def graph(v, seen=None):
    """all heap objects (NameContainer / Referent / Activation images) reachable from v, leaves excluded"""
    seen = seen if seen is not None else {}
    if id(v) in seen:
        return seen
    if isinstance(v, VDict) and v.cls is ev.NameContainer:
        seen[id(v)] = v
        for k, x in v.pairs:
            graph(x, seen)
        graph(v.attrs.get("parent", NONE), seen)
    elif isinstance(v, VObj) and v.cls in (ev.Referent, ev.Activation):
        seen[id(v)] = v
        for x in v.attrs.values():
            if isinstance(x, se.SV):
                graph(x, seen)
    return seen


from contracts.c05_base import mk_base


def frame_contracts():
    cs = []

    def invoke_clone(run, S):
        S.base = mk_base(run)
        S.before = graph(S.base)
        return run.call(run.getattr(S.base, "clone"), [])

    def post_clone(S, r):
        after = graph(r)
        shared = [o for i, o in after.items() if i in S.before]
        # deep ownership: no container / referent of the copy is an object of the base
        return len(shared) == 0 and isinstance(r, VObj) and r.cls is ev.Activation
    cs.append(V.Contract("celpy.evaluation:Activation.clone", [], name="Activation.clone(): every container and referent of the copy is fresh",
                         invoke=invoke_clone, ret=post_clone, exc={}, cover=False, native=False))

    for names in (["x"], ["a.b"], ["a.b", "x"], ["c.d.e"], ["y"], ["y", "x"]):
        def invoke_lv(run, S, names=names):
            S.base = mk_base(run)
            before = graph(S.base)
            snapshot = {i: (list(map(list, o.pairs)) if isinstance(o, VDict) else dict(o.attrs)) for i, o in before.items()}
            S.before, S.snapshot = before, snapshot
            clone = run.call(run.getattr(S.base, "clone"), [])
            ctx = VDict(dict, [[VStr(str, n), VInt(ct.IntType, z3.Int("new_" + n.replace(".", "_")))] for n in names])
            S.ctx, S.ctx_pairs = ctx, [list(p) for p in ctx.pairs]
            run.call(run.getattr(clone.attrs["identifiers"], "load_values"), [ctx])
            return clone

        def post_lv(S, r):
            # frame: binding values into the per-call copy changes nothing that belongs to the base, nor the caller's dict
            for i, o in S.before.items():
                now = list(map(list, o.pairs)) if isinstance(o, VDict) else dict(o.attrs)
                was = S.snapshot[i]
                if isinstance(o, VDict):
                    if len(now) != len(was) or any(a[0] is not b[0] or a[1] is not b[1] for a, b in zip(now, was)):
                        return False
                elif set(now) != set(was) or any(now[k] is not was[k] for k in was):
                    return False
            same_ctx = len(S.ctx.pairs) == len(S.ctx_pairs) and all(a[0] is b[0] and a[1] is b[1] for a, b in zip(S.ctx.pairs, S.ctx_pairs))
            return bool(same_ctx)
        cs.append(V.Contract("celpy.evaluation:NameContainer.load_values", [], name=f"clone() then load_values({names}) leaves the base and the caller's bindings untouched",
                             invoke=invoke_lv, ret=post_lv, exc={}, cover=False, native=False))
    return cs


# ------------------------------------------------------------------ histories, each in a fresh interpreter
def run_history(hist):
    env = dict(os.environ)
    p = subprocess.run([sys.executable, os.path.join(VERIF, "harness", "history_runner.py"), json.dumps(hist)],
                       capture_output=True, text=True, env=env)
    try:
        return json.loads(p.stdout.strip().splitlines()[-1])
    except Exception:
        return [["harness-failure", p.stderr[-300:]]]


PROGRAMS = {
    "hostfn_list": ("size(l) + tag(l)", {"l": "map"}, {"style": "list", "names": ["size", "tag"]}),
    "hostfn_dict": ("size(l) + tag(l)", {"l": "map"}, {"style": "dict", "names": ["size", "tag"]}),
    "builtin_size": ("size(l)", {"l": "map"}),
    "unbound_tag": ("tag(l) == 1 || true", {"l": "map"}),
    "sum": ("x + y", {"x": "int", "y": "int"}),
    "dotted": ("a.b + 1", {"a.b": "int"}),
    "dotted_or": ('has(a.b) ? a.b : 0 - 1', {"a.b": "int"}),
    "macro": ("[1, 2].map(v, v + x)", {"x": "int"}),
    "logic": ("x > 1 || y / 0 > 0", {"x": "int", "y": "int"}),
    # values that are == and hash alike but are different CEL values (sign of zero, int / uint / double / bool of one number):
    # any memo keyed by value, hash or == conflates them
    "recip": ("1.0 / x", {}), "mixed": ("x / x + x", {}), "text": ("string(x)", {}), "isint": ("type(x) == int", {}), "cond": ("x ? 'yes' : 'no'", {}),
    "neg_in_list": ("[x, 0.0 - x]", {}),
    "lit_div_pz": ("1.0 / 0.0", {}), "lit_div_nz": ("1.0 / -0.0", {}), "lit_mul_pz": ("0.0 * 5.0", {}), "lit_mul_nz": ("-0.0 * 5.0", {}),
    "lit_add_pz": ("0.0 + 0.0", {}), "lit_add_nz": ("-0.0 + -0.0", {}), "lit_one_i": ("1 + 1", {}), "lit_one_u": ("1u + 1u", {}), "lit_one_d": ("1.0 + 1.0", {}),
    "lit_seven_i": ("7 / 2", {}), "lit_seven_u": ("7u / 2u", {}), "lit_seven_d": ("7.0 / 2.0", {}),
}
# a program nested deeply enough to need the recursion limit the library sets: its outcome must not depend on which
# environments were created before
PROGRAMS["deep"] = ("x" + "+(x" * 60 + ")" * 60, {"x": "int"})
LITERAL_FAMILY = [p_ for p_ in PROGRAMS if p_.startswith("lit_")]
# texts that coincide once layout / letter case / comments are normalised but are different programs: any cache of parse
# results or compiled code keyed by a normalised source text conflates them
PROGRAMS.update({
    "lay_cmt_a": ("1 // one + 2", {}), "lay_cmt_b": ("1 // one\n+ 2", {}),
    "lay_str_a": ('"a b" + "!"', {}), "lay_str_b": ('"a  b" + "!"', {}), "lay_str_c": ('"a\tb" + "!"', {}),
    "lay_ml_a": ('"""a\nb""" + "!"', {}), "lay_ml_b": ('"""a b""" + "!"', {}),
    "lay_case_a": ('"A" + "b"', {}), "lay_case_b": ('"a" + "B"', {}),
    "lay_strip_a": ('" x" + "!"', {}), "lay_strip_b": ('"x " + "!"', {}),
})
LAYOUT_FAMILY = [p_ for p_ in PROGRAMS if p_.startswith("lay_")]


def T(kind, text):
    return {"$t": kind, "v": text}

BINDINGS = {
    "hostfn_list": [{"l": {"a": 1}}], "hostfn_dict": [{"l": {"a": 1}}], "builtin_size": [{"l": {"a": 1, "b": 2}}], "unbound_tag": [{"l": {"a": 1}}],
    "sum": [{"x": 1, "y": 2}, {"x": 40, "y": 2}],
    "dotted": [{"a.b": 5}, {"a.b": 7}, {}],
    "dotted_or": [{"a.b": 5}, {}],
    "macro": [{"x": 10}, {"x": 20}],
    "logic": [{"x": 5, "y": 1}, {"x": 0, "y": 1}],
    "recip": [{"x": T("double", "0.0")}, {"x": T("double", "-0.0")}],
    "mixed": [{"x": T("int", "9")}, {"x": T("double", "9.0")}, {"x": T("uint", "9")}],
    "text": [{"x": T("int", "7")}, {"x": T("double", "7.0")}, {"x": T("uint", "7")}, {"x": T("double", "-0.0")}, {"x": T("double", "0.0")}],
    "isint": [{"x": T("int", "7")}, {"x": T("double", "7.0")}, {"x": T("uint", "7")}, {"x": T("bool", "true")}, {"x": T("int", "1")}],
    "cond": [{"x": T("bool", "true")}, {"x": T("int", "1")}, {"x": T("bool", "false")}, {"x": T("int", "0")}],
    "neg_in_list": [{"x": T("double", "0.0")}, {"x": T("double", "-0.0")}],
}
for _p in LITERAL_FAMILY + LAYOUT_FAMILY:
    BINDINGS[_p] = [{}]
BINDINGS["deep"] = [{"x": 1}]


def histories(tier, rng):
    runners = ["InterpretedRunner", "CompiledRunner"]
    evals = [(p, r, b) for p in PROGRAMS for r in runners for b in range(len(BINDINGS[p]))]
    hs = []
    # (1) the same program evaluated with a sequence of bindings (all ordered pairs, incl. repetition)
    for p in PROGRAMS:
        for r in runners:
            for i, j in itertools.product(range(len(BINDINGS[p])), repeat=2):
                hs.append([(p, r, i), (p, r, j)])
    # (2) two different environments / runner kinds / programs in both creation orders
    pairs = list(itertools.permutations(evals, 2))
    rng.shuffle(pairs)
    for a, b in pairs[: (400 if tier == "thorough" else 60)]:
        hs.append([a, b])
    # (2b) programs with host functions followed by programs that use the same names
    for r1, r2 in itertools.product(runners, repeat=2):
        for first in ("hostfn_list", "hostfn_dict"):
            for second in ("builtin_size", "unbound_tag"):
                hs.append([(first, r1, 0), (second, r2, 0)])
    # (2c) literal programs that differ only in values which are == and hash alike: all ordered pairs, per runner
    for r in runners:
        for a, b in itertools.permutations(LITERAL_FAMILY, 2):
            if a.split("_")[1] == b.split("_")[1]:
                hs.append([(a, r, 0), (b, r, 0)])
    # (2c') programs whose texts differ only in layout that is significant (comment ends, blanks inside literals): all ordered pairs per group
    for r1, r2 in itertools.product(runners, repeat=2):
        for a, b in itertools.permutations(LAYOUT_FAMILY, 2):
            if a.split("_")[1] == b.split("_")[1] and (r1 == r2 or a < b):
                hs.append([(a, r1, 0), (b, r2, 0)])
    # (2d) the deep program after an environment of either runner class was created and used
    for r1, r2 in itertools.product(runners, repeat=2):
        hs.append([("sum", r1, 0), ("deep", r2, 0)])
    # (3) longer random histories
    for _ in range(200 if tier == "thorough" else 25):
        hs.append([rng.choice(evals) for _ in range(rng.choice((3, 4)))])
    return evals, hs


def to_ops(seq, late_program_build=False):
    ops, envs, progs = [], {}, {}
    for k, (p, r, bi) in enumerate(seq):
        key = (p, r)
        if key not in progs:
            envs[key] = f"e{len(envs)}"
            text, decls = PROGRAMS[p][:2]
            ops.append(["env", envs[key], r, None, decls])
            progs[key] = f"p{len(progs)}"
            ops.append(["prog", progs[key], envs[key], text, PROGRAMS[p][2] if len(PROGRAMS[p]) > 2 else None])
        ops.append(["eval", progs[key], BINDINGS[p][bi]])
    return ops


def bounded(rep, tier, seed, known):
    rng = random.Random(seed)
    evals, hs = histories(tier, rng)
    with ThreadPoolExecutor(16) as ex:
        alone = dict(zip(evals, ex.map(lambda e: run_history(to_ops([e])), evals)))
        results = list(ex.map(lambda h: run_history(to_ops(h)), hs))
    fails = []
    for h, res in zip(hs, results):
        for k, e in enumerate(h):
            want = alone[e][-1]
            got = res[k] if k < len(res) else ["missing"]
            if got != want or "BINDINGS-MODIFIED" in got:
                fails.append({"history": [list(x) for x in h], "position": k, "observed": got, "alone_in_a_fresh_process": want})
                break
    for e, r in alone.items():
        if "BINDINGS-MODIFIED" in r[-1] or r[-1][0] in ("escaped", "harness-failure"):
            fails.append({"history": [list(e)], "position": 0, "observed": r[-1]})
    n = sum(len(h) for h in hs) + len(evals)
    rep.bounded.append({"function": "histories of {create Environment, compile, program, evaluate}, each in a fresh interpreter, "
                        "every evaluation compared with the same evaluation alone in a fresh interpreter",
                        "cases": n, "distinct_nontrivial": len(hs), "failures": len(fails),
                        "bound": f"{len(hs)} histories of length 2-4 over 5 programs x 2 runner classes x 2-3 binding sets"})
    listed = {k["id"]: k for k in (known or [])}
    seen = set()
    for f in fails:
        key = json.dumps([f["history"], f["position"]])
        if key in seen:
            continue
        seen.add(key)
        o = rep.add(V.Obl(f"history{key}", "B", "Environment / Runner", "each evaluation of a history equals the same evaluation alone"))
        o.status, o.backend = "refuted", "cpython"
        o.detail = "failing input: " + repr(f)[:500]
        o.replay = {"replayed": True, "confirmed": True, "inputs": f}


def build(rep, tier="quick", seed=0, known=None):
    from contracts import c05_runners
    from props import c14
    run_contracts(frame_contracts() + c05_runners.contracts() + c14.binding_contracts(), rep, known=known)
    bounded(rep, tier, seed, known)
    rep.trusted |= {"lark's parser object is re-entrant and stateless between parses; heap writes are those the executor logs "
                    "(attribute stores, dict/list mutation, module-global stores, exec into a namespace)"}
    return {}
