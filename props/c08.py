"""C08 - equality and ordering are coherent within each CEL type."""
import datetime
import itertools
import random

import z3

import celpy.celtypes as ct
import celpy.evaluation as ev
from contracts.specs import *
from contracts import elems
from pyvc import verify as V
from pyvc import symexec as se
from pyvc.parallel import run_contracts
from pyvc.values import VInt, VFloat, VStr, VBytes, VList, VDict, VNative, VObj, VSymList, FP, NONE

LEVEL = "proof"

I64 = V.IntDom(ct.IntType, I64_MIN, I64_MAX1, "int")
U64 = V.IntDom(ct.UintType, 0, U64_MAX1, "uint")
DBL = V.FloatDom(ct.DoubleType, nan=False)
BOOL = V.BoolDom(ct.BoolType)
STR = V.StrDom(ct.StringType)
BYT = V.BytesDom(ct.BytesType)

OPS = {"_<_": "lt", "_<=_": "le", "_>_": "gt", "_>=_": "ge", "_==_": "eq", "_!=_": "ne"}


def order_term(kind, op, a, b):
    if kind == "fp":
        return {"lt": z3.fpLT(a, b), "le": z3.fpLEQ(a, b), "gt": z3.fpGT(a, b), "ge": z3.fpGEQ(a, b),
                "eq": z3.fpEQ(a, b), "ne": z3.Not(z3.fpEQ(a, b))}[op]
    return {"lt": a < b, "le": a <= b, "gt": a > b, "ge": a >= b, "eq": a == b, "ne": a != b}[op]


def scalar_contracts():
    cs = []
    for dom, kind, tag in ((I64, "int", "int"), (U64, "int", "uint"), (DBL, "fp", "double"), (BOOL, "int", "bool"),
                           (STR, "str", "string")):
        for name, op in OPS.items():
            fn = ev.base_functions[name]
            cs.append(V.Contract(
                "celpy.evaluation:boolean", [("a", dom), ("b", dom)], name=f"{tag} {name} {tag}",
                invoke=(lambda fn: lambda run, S: run.call(VNative(fn), [S.a, S.b]))(fn),
                native=(lambda fn: lambda N: fn(N["a"], N["b"]))(fn),
                ret=(lambda kind, op: lambda S, r: is_bool(r, ct.BoolType, order_term(kind, op, S.a.t, S.b.t)))(kind, op),
                exc={}, cover=False))
    for name in ("_==_", "_!=_"):
        fn = ev.base_functions[name]
        cs.append(V.Contract(
            "celpy.evaluation:boolean", [("a", BYT), ("b", BYT)], name=f"bytes {name} bytes",
            invoke=(lambda fn: lambda run, S: run.call(VNative(fn), [S.a, S.b]))(fn),
            native=(lambda fn: lambda N: fn(N["a"], N["b"]))(fn),
            ret=(lambda name: lambda S, r: is_bool(r, ct.BoolType, (S.a.t == S.b.t) if name == "_==_" else (S.a.t != S.b.t)))(name),
            exc={}, cover=False))
    return cs


def order_lemmas(rep):
    """The payload orders the wrappers were just shown to compute are coherent (Int, Float64 without NaN, String)."""
    sorts = {"int": (z3.Ints("a b c"), "int"), "double": ([z3.FP(n, FP) for n in "abc"], "fp"),
             "string": (z3.Strings("a b c"), "str")}
    for tag, ((a, b, c), kind) in sorts.items():
        pre = [z3.Not(z3.fpIsNaN(x)) for x in (a, b, c)] if kind == "fp" else []
        lt = lambda x, y: order_term(kind, "lt", x, y)
        gt = lambda x, y: order_term(kind, "gt", x, y)
        le = lambda x, y: order_term(kind, "le", x, y)
        eq = lambda x, y: order_term(kind, "eq", x, y)
        ne = lambda x, y: order_term(kind, "ne", x, y)
        L = lambda nm, goal: V.lemma(rep, f"lemma:{tag}-{nm}", "spec", f"{tag}: {nm}", pre, goal, timeout_ms=60000)
        L("eq-reflexive", eq(a, a))
        L("eq-symmetric", eq(a, b) == eq(b, a))
        L("ne-negates-eq", ne(a, b) == z3.Not(eq(a, b)))
        L("lt-irreflexive", z3.Not(lt(a, a)))
        L("lt-transitive", z3.Implies(z3.And(lt(a, b), lt(b, c)), lt(a, c)))
        L("lt-gt-converse", lt(a, b) == gt(b, a))
        L("le-is-lt-or-eq", le(a, b) == z3.Or(lt(a, b), eq(a, b)))
        L("trichotomy", z3.PbEq([(lt(a, b), 1), (eq(a, b), 1), (gt(a, b), 1)], 1))


# ------------------------------------------------------------------ lists of unknown length
class ListEqInv:
    """acc is a BoolType whose truth equals `alleq` (== : conjunction so far) or its negation (!=)."""

    def __init__(self, negated):
        self.negated = negated

    def summary0(self):
        return z3.BoolVal(True)

    def fresh(self, run):
        return run.fresh("alleq", z3.BoolSort())

    def holds(self, acc, sm):
        if not (isinstance(acc, VInt) and acc.cls is ct.BoolType):
            return False
        return (acc.t != 0) == (z3.Not(sm) if self.negated else sm)

    def make_acc(self, run, sm):
        t = run.fresh_int("acc")
        run.assume(z3.Or(t == 0, t == 1))
        acc = VInt(ct.BoolType, t)
        run.assume(self.holds(acc, sm))
        return acc

    def extend(self, sm, x):
        if not (isinstance(x, VInt) and x.cls is ct.BoolType):
            return z3.BoolVal(False)
        return z3.And(sm, (x.t == 0) if self.negated else (x.t != 0))


def list_contracts():
    cs = []
    for meth, negated in (("__eq__", False), ("__ne__", True)):
        def invoke(run, S, meth=meth, negated=negated):
            elems.install(run)
            run.ghost["fold_inv"] = ListEqInv(negated)
            S.a = VSymList(ct.ListType, elems.fresh_elem, "self")
            S.b = VSymList(ct.ListType, elems.fresh_elem, "other")
            return run.call(run.getattr(S.a, meth), [S.b])

        def post(S, r, negated=negated):
            if not (isinstance(r, VInt) and r.cls is bool):
                return False
            g = S._run.ghost
            la, lb = S.a.length, S.b.length
            if la is None or lb is None:
                return False
            alleq = g.get("fold_final_summary")
            if alleq is None:
                # the fold was skipped: only legitimate when the lengths differ
                want = z3.BoolVal(negated)
                return z3.And(la != lb, (r.t != 0) == want)
            eq = z3.And(la == lb, alleq)
            return (r.t != 0) == (z3.Not(eq) if negated else eq)
        cs.append(V.Contract(f"celpy.celtypes:ListType.{meth}", [], name=f"ListType.{meth}(lists of unknown length)",
                             invoke=invoke, ret=post, exc={}, cover=False, native=False))
    return cs


# ------------------------------------------------------------------ maps: every key-set shape over {k0,k1}, symbolic values
def _map_dom(keys, tag):
    def mk(run, name):
        return VDict(ct.MapType, [[VStr(ct.StringType, k), VInt(ct.IntType, z3.Int(f"{name}_{k}"))] for k in keys], {})
    return V.FnDom(mk, f"map{{{','.join(keys)}}}",
                   native=lambda: [ct.MapType({ct.StringType(k): ct.IntType(v) for k, v in zip(keys, vs)})
                                   for vs in itertools.product((0, 1), repeat=len(keys))])


MAPS = [_map_dom(ks, "m") for ks in ([], ["k0"], ["k1"], ["k0", "k1"], ["k1", "k0"], ["k0", "k1", "k2"])]


def map_contracts():
    cs = []
    for meth, negated in (("__eq__", False), ("__ne__", True)):
        def post(S, r, negated=negated):
            if not (isinstance(r, VInt) and r.cls is bool):
                return False
            ka = {se.conc(k): v for k, v in S.a.pairs}
            kb = {se.conc(k): v for k, v in S.b.pairs}
            if set(ka) != set(kb):
                eq = z3.BoolVal(False)
            else:
                eq = z3.And([ka[k].t == kb[k].t for k in ka]) if ka else z3.BoolVal(True)
            return (r.t != 0) == (z3.Not(eq) if negated else eq)
        cs.append(V.Contract(f"celpy.celtypes:MapType.{meth}", [("a", MAPS), ("b", MAPS)],
                             name=f"MapType.{meth}(key sets over k0,k1,k2; arbitrary int values)",
                             invoke=(lambda meth: lambda run, S: run.call(run.getattr(S.a, meth), [S.b]))(meth),
                             native=(lambda meth: lambda N: getattr(N["a"], meth)(N["b"]))(meth),
                             ret=post, exc={}, cover=False))
    return cs


# ------------------------------------------------------------------ bounded stand-ins: bytes order, timestamps, durations, nesting
def bounded(rep, tier, seed):
    rng = random.Random(seed)

    class _Raised:
        """a relation that raises instead of answering: no truth value (counts as incoherent, never crashes the harness)"""
        def __init__(self, ex):
            self.ex = ex

        def __bool__(self):
            return False

        def __repr__(self):
            return f"raised {type(self.ex).__name__}: {self.ex}"

    def _guard(f):
        def g(a, b):
            try:
                return f(a, b)
            except Exception as ex:
                return _Raised(ex)
        return g
    bf = {k: _guard(v) for k, v in ev.base_functions.items() if k in ("_==_", "_!=_", "_<_", "_<=_", "_>_", "_>=_")}
    fails = []
    n = 0
    distinct = set()

    def coherent(vals, ordered, label):
        nonlocal n
        for a, b in itertools.product(vals, repeat=2):
            n += 1
            distinct.add((label, repr(a), repr(b)))
            eq, ne = bf["_==_"](a, b), bf["_!=_"](a, b)
            ok = isinstance(eq, ct.BoolType) and isinstance(ne, ct.BoolType) and bool(eq) != bool(ne) and \
                bool(eq) == bool(bf["_==_"](b, a)) and (a is not b or bool(eq))
            if ok and ordered:
                lt, gt, le, ge = bf["_<_"](a, b), bf["_>_"](a, b), bf["_<=_"](a, b), bf["_>=_"](a, b)
                ok = all(isinstance(x, ct.BoolType) for x in (lt, gt, le, ge)) and \
                    (bool(lt) + bool(eq) + bool(gt) == 1) and bool(lt) == bool(bf["_>_"](b, a)) and \
                    bool(le) == (bool(lt) or bool(eq)) and bool(ge) == (bool(gt) or bool(eq))
            if not ok:
                fails.append({"type": label, "a": repr(a), "b": repr(b)})
        if ordered:
            for a, b, c in itertools.islice(itertools.product(vals, repeat=3), 3000):
                n += 1
                if bool(bf["_<_"](a, b)) and bool(bf["_<_"](b, c)) and not bool(bf["_<_"](a, c)):
                    fails.append({"type": label, "transitivity": [repr(a), repr(b), repr(c)]})
    ts = [ct.TimestampType(s) for s in ("2009-02-13T23:31:30Z", "2009-02-14T01:31:30+02:00", "2009-02-13T18:31:30-05:00",
                                        "2009-02-13T23:31:31Z", "0001-01-01T00:00:00Z", "9999-12-31T23:59:59Z",
                                        "2009-02-13T23:31:30.000001Z", "2020-02-29T12:00:00+14:00", "2020-02-28T22:00:00Z",
                                        # adjacent microseconds where binary64 seconds can no longer tell them apart
                                        "9999-12-31T23:59:59.000001Z", "9999-12-31T23:59:59.000002Z", "9999-12-31T23:59:59.999999Z",
                                        "2300-01-01T00:00:00.000001Z", "2300-01-01T00:00:00.000002Z", "0001-01-01T00:00:00.000001Z")]
    du = [ct.DurationType(s) for s in ("0s", "1s", "-1s", "1h", "3600s", "60m", "1.5s", "1500ms", "315576000000s", "-315576000000s")]
    du += [ct.DurationType(datetime.timedelta(seconds=315576000000 - 1, microseconds=m)) for m in (999998, 999999)] + \
          [ct.DurationType(datetime.timedelta(microseconds=m)) for m in (1, 2, -1)]
    by = [ct.BytesType(b) for b in (b"", b"a", b"b", b"ab", b"\x00", b"\xff", b"a\x00", b"\xc3\xa9")]
    st = [ct.StringType(s) for s in ("", "a", "b", "ab", "é", "\U0001f431", "￿", "Z", "a\U0001f431")]
    coherent(ts, True, "timestamp")
    coherent(du, True, "duration")
    coherent(by, True, "bytes")
    coherent(st, True, "string")
    # instants: equal instants written with different offsets are equal, and order follows the instant
    for a, b in itertools.product(ts, repeat=2):
        n += 1
        # the instant as plain integers (independent of the class's own comparison methods)
        ia, ib = tuple(a.utctimetuple()[:6]) + (a.microsecond,), tuple(b.utctimetuple()[:6]) + (b.microsecond,)
        if bool(bf["_==_"](a, b)) != (ia == ib) or bool(bf["_<_"](a, b)) != (ia < ib):
            fails.append({"type": "timestamp-instant", "a": repr(a), "b": repr(b)})
    # nested lists / maps of same-typed values
    L = ct.ListType
    M = ct.MapType
    S_ = ct.StringType
    I = ct.IntType
    nested = [L([]), L([I(1)]), L([I(1), I(2)]), L([I(2), I(1)]), L([L([I(1)]), L([])]), L([L([I(1)]), L([I(2)])]),
              L([M({S_("a"): I(1)})]), L([M({S_("a"): I(2)})]), L([M({S_("b"): I(1)})])]
    coherent([x for x in nested if not x or isinstance(x[0], I)], False, "list<int>")
    coherent([x for x in nested if x and isinstance(x[0], L)] + [L([])], False, "list<list<int>>")
    coherent([x for x in nested if x and isinstance(x[0], M)] + [L([])], False, "list<map>")
    maps = [M({}), M({S_("a"): I(1)}), M({S_("a"): I(2)}), M({S_("b"): I(1)}), M({S_("a"): I(1), S_("b"): I(2)}),
            M({S_("b"): I(2), S_("a"): I(1)}), M({S_("a"): L([I(1)])}), M({S_("a"): L([I(2)])})]
    coherent(maps[:6], False, "map<string,int>")
    coherent([maps[0], maps[6], maps[7]], False, "map<string,list>")
    rep.bounded.append({"function": "timestamp/duration/bytes/string ordering and nested containers through base_functions",
                        "bound": "fixed boundary values (offsets, non-BMP, nesting depth 2)", "cases": n,
                        "distinct_nontrivial": len(distinct), "failures": len(fails)})
    if fails:
        o = rep.add(V.Obl("comparisons#bounded", "B", "base_functions relations", "bounded stand-in: coherence on boundary values"))
        o.status, o.backend = "refuted", "cpython"
        o.detail = "failing input: " + repr(fails[0])
        o.replay = {"replayed": True, "confirmed": True, "inputs": fails[0], "more": fails[1:4]}


def time_comparison_provenance(rep):
    """E: timestamp and duration relations ARE the library's exact comparisons (datetime compares aware values by instant,
    timedelta by its integer microseconds - trusted): every comparison dunder and __hash__ of TimestampType / DurationType
    resolves, through the real MRO, to datetime.datetime / datetime.timedelta.  A repository override is outside the
    engine's reach (datetime values are opaque): the obligation is then left undecided and the bounded sweep decides."""
    for cls, base in ((ct.TimestampType, datetime.datetime), (ct.DurationType, datetime.timedelta)):
        for dn in ("__eq__", "__ne__", "__lt__", "__le__", "__gt__", "__ge__", "__hash__"):
            owner = next(k for k in cls.__mro__ if dn in k.__dict__)
            o = rep.add(V.Obl(f"E:time-relation[{cls.__name__}.{dn}]", "E", f"celpy.celtypes:{cls.__name__}",
                              f"{cls.__name__}.{dn} is {base.__module__}.{base.__name__}.{dn} (exact comparison by instant / by microseconds)"))
            o.backend = "mro-table"
            if owner is base:
                o.status = "discharged"
            else:
                o.status = "undecided"
                o.detail = f"{dn} is defined by {owner.__module__}.{owner.__qualname__}: not symbolically executable (opaque datetime); see comparisons#bounded"


def build(rep, tier="quick", seed=0, known=None):
    time_comparison_provenance(rep)
    cs = scalar_contracts() + list_contracts() + map_contracts()
    run_contracts(cs, rep, known=known)
    order_lemmas(rep)
    bounded(rep, tier, seed)
    rep.trusted |= {
        "builtin orders of int, float (IEEE), str (code point) as in pyvc.models; z3 str.< is code-point lexicographic order",
        "lists: element equality is an arbitrary boolean outcome per pair (induction hypothesis for same-typed elements); "
        "element != is the negation of element ==",
        "maps: key sets enumerated over {k0,k1,k2} with arbitrary int values; dict hashing consistent with equality",
        "timestamps/durations/bytes ordering: bounded stand-in on boundary values (aware-datetime comparison is by instant)",
    }
    return {}
