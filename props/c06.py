"""C06 - parser implements CEL precedence and associativity; AST dump round-trips."""
import itertools
import os
import random
import re

import lark
from lark import Lark
from lark.parsers.lalr_analysis import LALR_Analyzer

import celpy
import celpy.celparser as cp
from pyvc import verify as V
from pyvc import regexlang as RL

LEVEL = "proof"
HERE = os.path.dirname(os.path.abspath(__file__))
STRATA = {"expr", "conditionalor", "conditionaland", "relation", "addition", "multiplication", "unary", "member", "primary",
          "exprlist", "fieldinits", "mapinits", "literal"}


def real_parser():
    celpy.CELParser.CEL_PARSER = None
    p = celpy.CELParser()
    return p, p.parser if hasattr(p, "parser") else celpy.CELParser.CEL_PARSER


def fail(rep, oid, func, desc, inputs, observed, kind="E"):
    o = V.table_obl(rep, oid, func, desc, False, f"input: {inputs!r} -> {observed}", kind=kind)
    o.replay = {"replayed": True, "confirmed": True, "inputs": inputs, "observed": str(observed)[:500]}
    return o


# ------------------------------------------------------------------ (a) grammar structure
def normalise(L):
    """rule set with helper non-terminals inlined, anonymous terminals replaced by their text, star helpers by their shape"""
    tname = {}
    for t in L.terminals:
        if t.name.startswith("__ANON") or isinstance(t.pattern, lark.lexer.PatternStr):
            tname[t.name] = repr(t.pattern.value)
    rules = {}
    for r in L.rules:
        rules.setdefault(r.origin.name, []).append([tname.get(s.name, s.name) for s in r.expansion])
    stars = {n for n in rules if n.startswith("__")}
    helpers = [n for n in rules if n not in STRATA and n not in stars]

    def star_key(n):
        alts = sorted(tuple("SELF" if s == n else s for s in alt) for alt in rules[n])
        return "STAR" + repr(alts)
    changed = True
    while changed:
        changed = False
        for h in helpers:
            for lhs in list(rules):
                if lhs == h:
                    continue
                new = []
                for alt in rules[lhs]:
                    if h in alt:
                        changed = True
                        i = alt.index(h)
                        for halt in rules[h]:
                            new.append(alt[:i] + halt + alt[i + 1:])
                    else:
                        new.append(alt)
                rules[lhs] = new
    out = set()
    for lhs, alts in rules.items():
        if lhs in helpers:
            continue
        key = star_key(lhs) if lhs in stars else lhs
        for alt in alts:
            out.add((key, tuple(star_key(s) if s in stars else s for s in alt)))
    return out


def grammar(rep):
    p, L = real_parser()
    func = "src/celpy/cel.lark"
    # E-1: no LALR conflict (lark built with debug=True resolves shift/reduce conflicts silently, so re-analyse strictly)
    try:
        LALR_Analyzer(L.parser.parser_conf if hasattr(L.parser, "parser_conf") else L.parser.parser.parser_conf, debug=True, strict=True).compute_lalr()
        V.table_obl(rep, "E1:lalr-strict-no-conflict", func, "the LALR(1) automaton of the real grammar has no shift/reduce or reduce/reduce conflict", True)
    except Exception as ex:
        fail(rep, "E1:lalr-strict-no-conflict", func, "no LALR conflict", {"grammar": "cel.lark"}, f"{type(ex).__name__}: {str(ex)[:300]}")
    # E-2: schema isomorphism with the canonical stratified grammar written from the precedence table
    text = open(cp.__file__.replace("celparser.py", "cel.lark")).read()
    m = re.search(r"^[A-Z_]+(\.\d+)?\s*:", text, re.M)
    terminals = text[m.start():]
    canon = open(os.path.join(os.path.dirname(HERE), "contracts", "canonical_cel_rules.lark")).read() + "\n" + terminals
    C = Lark(canon, parser="lalr", start="expr", maybe_placeholders=False, g_regex_flags=re.M, priority="invert")
    real, want = normalise(L), normalise(C)
    for r in sorted(want | real, key=repr):
        ok = r in real and r in want
        oid = f"E2:rule[{r[0][:40]} -> {' '.join(x[:24] for x in r[1])}]"
        if ok:
            V.table_obl(rep, oid, func, "production of the canonical precedence grammar is a production of the real grammar, and vice versa", True)
        else:
            fail(rep, oid, func, "real grammar and canonical precedence grammar have the same productions (helpers inlined)",
                 {"production": f"{r[0]} -> {' '.join(r[1])}"}, "only in the " + ("canonical" if r in want else "real") + " grammar")
    # E-3: only whitespace and // comments are ignored
    ign = set(L.ignore_tokens)
    V.table_obl(rep, "E3:ignored-terminals", func, "%ignore is exactly WHITESPACE and COMMENT", ign == {"WHITESPACE", "COMMENT"}, f"input: {sorted(ign)}")
    pats = {t.name: t.pattern.to_regexp() for t in L.terminals}
    for name, want_re in (("WHITESPACE", "[\\t\\n\\f\\r ]+"), ("COMMENT", "//[^\\n]*")):
        import z3
        a, b = RL.to_z3(pats[name]), RL.to_z3(want_re)
        s1, w1 = RL.included(a, b)
        s2, w2 = RL.included(b, a)
        o = rep.add(V.Obl(f"E3:{name}-language", "G", func, f"L({name}) is {want_re!r}"))
        o.status = "discharged" if s1 == s2 == "discharged" else ("refuted" if "refuted" in (s1, s2) else "undecided")
        o.backend = "z3-regex"
        if o.status == "refuted":
            o.detail = f"input: {w1 if w1 is not None else w2!r}"
            o.replay = {"replayed": True, "confirmed": True, "inputs": {"witness": w1 if w1 is not None else w2}, "observed": pats[name]}
    # E-4: in every parser state the words true / false / null lex as literals or are rejected, never as identifiers
    from lark.lexer import TextSlice
    cl = L.parser.lexer
    for word, want_type in (("true", "BOOL_LIT"), ("false", "BOOL_LIT"), ("null", "NULL_LIT")):
        bad = []
        for state, bl in cl.lexers.items():
            try:
                m_ = bl.match(TextSlice(word, 0, len(word)), 0)
            except TypeError:
                m_ = bl.match(word, 0)
            if not m_ or m_[0] != word:
                continue
            tok = lark.Token(m_[1], m_[0])
            cb = bl.callback.get(m_[1])
            if cb:
                tok = cb(tok)
            if tok.type != want_type:
                bad.append((state, tok.type))
        if bad:
            o = fail(rep, f"E4:keyword[{word}]", func, f"`{word}` is a literal in every parser state", {"word": word, "states": [b[0] for b in bad][:8]},
                     f"lexes as {bad[0][1]} in {len(bad)} of {len(cl.lexers)} parser states")
            # replay at the language level
            try:
                t = p.parse(f"x.{word}")
                o.replay["program"] = f"x.{word}"
                o.replay["observed_tree"] = str(t)[:200]
            except Exception as ex:
                o.replay["program"] = f"x.{word} -> {type(ex).__name__}"
        else:
            V.table_obl(rep, f"E4:keyword[{word}]", func, f"`{word}` is a literal in every parser state ({len(cl.lexers)} states)", True)


# ------------------------------------------------------------------ (b) precedence / associativity against a reference parser
BIN = [("||", 1), ("&&", 2), ("<", 3), ("<=", 3), (">", 3), (">=", 3), ("==", 3), ("!=", 3), ("in", 3), ("+", 4), ("-", 4), ("*", 5), ("/", 5), ("%", 5)]
PREC = dict(BIN)


def paren_form(tokens):
    """fully parenthesised text per the statement's table (reference precedence-climbing parser over a token list)"""
    pos = [0]

    def peek():
        return tokens[pos[0]] if pos[0] < len(tokens) else None

    def take():
        t = tokens[pos[0]]
        pos[0] += 1
        return t

    def primary():
        t = take()
        if t == "(":
            e = expr()
            assert take() == ")"
            out = f"({e})"
        elif t == "[":
            e = expr()
            assert take() == "]"
            out = f"[{e}]"
        else:
            out = t
        while peek() in (".", "[", "("):
            t = take()
            if t == ".":
                name = take()
                if peek() == "(":
                    take()
                    if peek() == ")":
                        take()
                        out = f"({out}.{name}())"
                    else:
                        a = expr()
                        assert take() == ")"
                        out = f"({out}.{name}({a}))"
                else:
                    out = f"({out}.{name})"
            elif t == "[":
                i = expr()
                assert take() == "]"
                out = f"({out}[{i}])"
            else:
                a = expr()
                assert take() == ")"
                out = f"{out}({a})"
        return out

    def unary():
        if peek() in ("!", "-"):
            op = take()
            return f"({op}{unary()})"
        return primary()

    def binary(minp):
        left = unary()
        while peek() in PREC and PREC[peek()] >= minp:
            op = take()
            right = binary(PREC[op] + 1)
            left = f"({left} {op} {right})"
        return left

    def expr():
        c = binary(1)
        if peek() == "?":
            take()
            a = binary(1)
            assert take() == ":"
            b = expr()
            return f"({c} ? {a} : {b})"
        return c
    out = expr()
    assert pos[0] == len(tokens), (tokens, pos[0])
    return out


def strip(t):
    if isinstance(t, lark.Token):
        return ("tok", t.type, str(t))
    kids = [strip(c) for c in t.children]
    if t.data == "paren_expr":
        return kids[0]
    if len(kids) == 1 and t.data in ("expr", "conditionalor", "conditionaland", "relation", "addition", "multiplication", "unary", "member", "primary"):
        return kids[0]
    return (t.data, tuple(kids))


def precedence(rep, tier, seed):
    p, L = real_parser()
    rng = random.Random(seed)
    fails = []
    n = 0
    ops = [o for o, _ in BIN]
    cases = []
    for a, b in itertools.product(ops, repeat=2):
        cases.append(["x", a, "y", b, "z"])
    for a, b, c in itertools.product(ops, repeat=3) if tier == "thorough" else [tuple(rng.choice(ops) for _ in range(3)) for _ in range(400)]:
        cases.append(["x", a, "y", b, "z", c, "w"])
    for a in ops:
        cases += [["!", "x", a, "y"], ["-", "x", a, "y"], ["x", a, "-", "y"], ["x", a, "!", "!", "y"], ["x", ".", "f", a, "y", "[", "i", "]"],
                  ["-", "x", ".", "f", a, "y"], ["x", a, "y", ".", "g", "(", "z", ")"], ["!", "x", "[", "i", "]", a, "y"],
                  ["a", "?", "x", a, "y", ":", "z"], ["a", a, "b", "?", "x", ":", "y"], ["a", "?", "x", ":", "y", a, "z"],
                  ["a", "?", "b", ":", "c", "?", "d", ":", "e"], ["a", "?", "b", "?", "c", ":", "d", ":", "e"] if False else ["a", "?", "x", ":", "b", "?", "y", ":", "z"]]
    cases += [["true"], ["false"], ["null"], ["x", "==", "null"], ["true", "&&", "false", "||", "null", "==", "null"], ["-", "-", "x"], ["!", "-", "x"],
              ["x", ".", "f", ".", "g", "(", "y", ")", "[", "i", "]", ".", "h"], ["[", "x", "]", "[", "i", "]"], ["x", "-", "-", "y"], ["x", "-", "y", "-", "z"]]
    for toks in cases:
        n += 1
        text = " ".join(toks)
        try:
            full = paren_form(toks)
            t1, t2 = p.parse(text), p.parse(full)
            ok = strip(t1) == strip(t2)
            obs = None if ok else "tree differs from the tree of " + full
        except Exception as ex:
            ok, obs = False, f"{type(ex).__name__}: {str(ex)[:100]}"
        if ok:
            # whitespace and // comments are insignificant
            noisy = " \t".join(toks) + " // trailing comment && || ? :\n"
            noisy2 = "// leading comment\n" + "\n".join(toks)
            try:
                if any(t == "in" for t in toks) or True:
                    ok = strip(p.parse(noisy)) == strip(t1) and strip(p.parse(noisy2)) == strip(t1)
                    obs = None if ok else "whitespace / comment changed the tree"
            except Exception as ex:
                ok, obs = False, f"with whitespace/comments: {type(ex).__name__}"
        if not ok:
            fails.append({"text": text, "observed": obs})
    # layout that IS significant: the end of a // comment, blanks and line feeds inside literals.  Texts that agree after
    # layout normalisation are parsed one after the other by the same parser; each tree must be the tree of ITS text:
    # every token is the slice of the text at the token's own position, and the structure is that of the text with its
    # comments removed (comment = from // outside a literal to the end of the line).
    layout_sequences = [
        (["x // c + y", "x // c\n+ y"], ["x", "x + y"]),
        (["x // c\n+ y", "x // c + y"], ["x + y", "x"]),
        (["x\n// c ? y : z\n? y : z", "x // c ? y : z ? y : z"], ["x ? y : z", "x"]),
        (['s + "a b" * 2', 's + "a  b" * 2', 's + "a\tb" * 2'], None),
        (['"""a\nb""" + s', '"""a b""" + s', '"""a\n\nb""" + s'], None),
        (["x+y", "x + y", "x\t+\ny", "x  +  y // done"], ["x + y"] * 4),
        (['f(" // not a comment") + 1', 'f(" //  not a comment") + 1'], None),
    ]
    for texts, stripped in layout_sequences:
        for k, text in enumerate(texts):
            n += 1
            try:
                t = p.parse(text)
                bad = [str(tok) for tok in t.scan_values(lambda v: isinstance(v, lark.Token))
                       if tok.start_pos is None or text[tok.start_pos:tok.end_pos] != str(tok)]
                ok, obs = not bad, (f"token(s) {bad[:3]} are not the text at their own position" if bad else None)
                if ok and stripped is not None:
                    ok = strip(t) == strip(p.parse(stripped[k]))
                    obs = None if ok else f"tree differs from the tree of {stripped[k]!r} (the text without its comments)"
            except Exception as ex:
                ok, obs = False, f"{type(ex).__name__}: {str(ex)[:100]}"
            if not ok:
                fails.append({"text": text, "after": texts[:k], "observed": obs})
    rep.bounded.append({"function": "CELParser.parse vs the fully parenthesised form (reference precedence-climbing parser)", "cases": n,
                        "distinct_nontrivial": n, "failures": len(fails),
                        "bound": "all ordered pairs of the 14 binary operators, triples (all in thorough, 400 sampled in quick), unary/member/index/call/ternary contexts per operator; whitespace and comment variants"})
    return fails


# ------------------------------------------------------------------ (c) dump round trip over all derivations up to a depth
def derivations(depth, rng, limit):
    atoms = ["x", "f(y)", "42", '"s"', "true", "null", "[1, 2]", '{"k": 1}', "m.a", "l[0]", "T{a: 1, b: 2}", "[]", "{}", "g()", ".q", ".r(1)", "x.h()", "1u", "2.5", "b'z'", "1 .f", "7 .g(x)", "r'\\d'", '"""m"""', "'q'"]
    exprs = list(atoms)
    for _ in range(depth):
        new = []
        pool = exprs if len(exprs) < 60 else rng.sample(exprs, 60)
        for a in pool:
            new += [f"!{a}", f"-{a}", f"({a})", f"{a}.f", f"{a}.g({a})", f"{a}[{a}]", f"[{a}]", f"h({a}, {a})"]
        for a, b in itertools.product(pool[:25], repeat=2):
            op = rng.choice([o for o, _ in BIN])
            new.append(f"{a} {op} {b}")
        for a, b, c in zip(pool, pool[1:], pool[2:]):
            new += [f"{a} ? {b} : {c}", f"({a} ? {b} : {c}) ? {b} : {c}", f"{{{a}: {b}, {c}: {a}}}", f"T{{a: {a}, b: {b}}}"]
        exprs += new
    rng.shuffle(exprs)
    return list(dict.fromkeys(atoms + exprs))[:limit]


def int_receiver(t):
    while isinstance(t, lark.Tree) and len(t.children) == 1:
        t = t.children[0]
    return isinstance(t, lark.Token) and t.type == "INT_LIT"


def dump_round_trip(rep, tier, seed, known):
    p, L = real_parser()
    rng = random.Random(seed)
    fails = []
    n = 0
    for text in derivations(2, rng, 6000 if tier == "thorough" else 900):
        try:
            t = p.parse(text)
        except Exception:
            continue
        n += 1
        try:
            d = cp.tree_dump(t)
            ok = strip(p.parse(d)) == strip(t)
            obs = None if ok else f"dump {d!r} re-parses to a different tree"
        except Exception as ex:
            ok, obs = False, f"{type(ex).__name__}: {str(ex)[:80]}"
        if not ok:
            fails.append({"text": text, "observed": obs, "empty_list": any(not x.children for x in t.find_data("list_lit")),
                          "int_dot": any(int_receiver(x.children[0]) for k in ("member_dot", "member_dot_arg") for x in t.find_data(k))})
    rep.bounded.append({"function": "tree_dump then CELParser.parse", "cases": n, "distinct_nontrivial": n, "failures": len(fails),
                        "bound": "derivations from 25 atoms (every primary/member/literal form) closed 2 levels under every operator, sampled"})
    return fails


STRINGLIKE = {"STRING_LIT", "MLSTRING_LIT", "BYTES_LIT"}


def unparser(rep, known):
    """per-production unparse contracts on the real DumpAST methods + token-boundary obligations for what they emit"""
    import z3
    from contracts import dump_rules as DR
    adj = set()
    cons, passthrough, prods = DR.contracts(adj)
    for c in cons:
        V.check_contract(c, rep, known=known)
    for o in rep.obls:
        if o.func.startswith("DumpAST.list_lit['[' ']']") and o.status == "refuted":
            o.finding_id = "C06-empty-list-dump"
    func = "src/celpy/celparser.py:DumpAST"
    for node, syms in passthrough:
        nts = [x for k, x in syms if k == DR.NT]
        V.table_obl(rep, f"D0:passthrough[{node} -> {' '.join(x for _, x in syms)}]", func,
                    "a node without a DumpAST method is a unit production (its single sub-tree's text stays on the stack)", len(syms) == 1 and len(nts) == 1)
    V.table_obl(rep, "D0:visit-order", func, "DumpAST.visit is lark's Visitor_Recursive.visit (sub-trees left to right, then the node) and no __default__ override",
                cp.DumpAST.visit is lark.visitors.Visitor_Recursive.visit and "__default__" not in cp.DumpAST.__dict__ and "visit" not in cp.DumpAST.__dict__)
    order = []

    class Probe(lark.visitors.Visitor_Recursive):
        def __default__(self, t):
            order.append(t.data)
    Probe().visit(lark.Tree("n", [lark.Tree("a", [lark.Tree("a1", [])]), lark.Token("X", "x"), lark.Tree("b", [])]))
    V.table_obl(rep, "D0:visit-order-probe", "lark.visitors.Visitor_Recursive.visit", "post-order, left to right (native probe of the library)", order == ["a1", "a", "b", "n"])
    # token boundaries
    p, L = real_parser()
    last = DR.last_sets(L)
    terms = {t.name: RL.to_z3(t.pattern.to_regexp()) for t in L.terminals}
    anystr = z3.Star(RL.anychar())

    def lang(item, side):
        k, x = item
        if k == DR.LIT:
            return [(repr(x), z3.Re(z3.StringVal(x)))]
        kind, sym = x.split(":", 1)
        if kind == "tok":
            return [(sym, terms[sym])]
        if side == "right":
            return [("<any text>", z3.Plus(RL.anychar()))]
        return [(a, terms[a]) for a in sorted(last[sym]) if a not in STRINGLIKE]
    pairs = {}
    for x, y, sig in adj:
        pairs.setdefault((x, y), []).append(sig)
    # whitespace always separates: no terminal of a text's last-token class extends across a blank
    for a in sorted({a for n in last for a in last[n]} - STRINGLIKE):
        pairs.setdefault(((DR.TOKV, "tok:" + a), (DR.LIT, " ")), []).append("whitespace-separated tokens")
    n_q = 0
    for (x, y), sigs in sorted(pairs.items(), key=repr):
        for an, al in lang(x, "left"):
            for bn, bl in lang(y, "right"):
                bad = []
                for tn, tl in terms.items():
                    s = z3.Solver()
                    s.set("timeout", 20000)
                    w = z3.String("w")
                    if y[0] == DR.LIT or bn != "<any text>":
                        s.add(z3.InRe(w, z3.Intersect(z3.Concat(al, bl, anystr), tl)))
                    else:       # a literal followed by arbitrary text: no terminal has the literal as a proper prefix
                        s.add(z3.InRe(w, z3.Intersect(z3.Concat(al, bl), tl)))
                    r = s.check()
                    n_q += 1
                    if r != z3.unsat:
                        bad.append((tn, str(r), se_str(s.model()[w]) if r == z3.sat else None))
                oid = f"D1:adjacent[{an} {bn}]"
                if any(o.id == oid for o in rep.obls):
                    continue
                o = rep.add(V.Obl(oid, "G", func, f"written without whitespace (by {sorted(set(sigs))[0][:60]}...), a token of {an} followed by {bn} is not merged into one terminal"))
                o.backend = "z3-regex"
                if not bad:
                    o.status = "discharged"
                elif any(b[1] == "sat" for b in bad):
                    tn, _, wit = next(b for b in bad if b[1] == "sat")
                    o.status = "refuted"
                    o.detail = f"input: {wit!r} is one {tn} token"
                    o.replay = {"replayed": True, "confirmed": True, "inputs": {"text": wit, "terminal": tn}}
                else:
                    o.status = "undecided"
                    o.detail = "solver: " + repr(bad[:2])
    rep.trusted |= {"lark's standard lexer takes, at each position, the first alternative of its terminal list that matches (Python re semantics); "
                    "a terminal that cannot match any extension across the boundary therefore yields the same token",
                    "string-like terminals (lazy quantifiers) at the left of a boundary are covered by the bounded round trip only"}


def se_str(v):
    from pyvc.symexec import zstr_to_py
    return zstr_to_py(v)


def parse_is_a_function_of_its_text():
    """CELParser.parse under contract: the tree handed back is the one lark's parser builds for THIS text, whatever the same
    parser object parsed before (two consecutive calls with arbitrary, different texts on one object; lark's parser is an
    abstract callee that tags each tree with the text it was given).  A cache, a normalised key or any other state carried
    between calls makes the second result depend on the first text and fails the obligation."""
    import z3
    from pyvc import symexec as se
    from pyvc.values import VObj, VStr, VModel, VNative

    def invoke(run, S):
        cp.CELParser()          # the class-level grammar is loaded (precondition of parse)

        def lark_parse(run, text, *a, **kw):
            return VObj(object, {"text_parsed": text}, label="tree")
        parser = VObj(Lark, {"parse": VModel(lark_parse, "Lark.parse")}, label="lark")
        self_ = VObj(cp.CELParser, {"parser": parser}, label="celparser")
        S.t1, S.t2 = VStr(str, z3.String("text1")), VStr(str, z3.String("text2"))
        run.assume(S.t1.t != S.t2.t)
        parse = VNative(cp.CELParser.__dict__["parse"])
        S.r1 = run.call(parse, [self_, S.t1])
        return run.call(parse, [self_, S.t2])

    def post(S, r):
        ok1 = isinstance(S.r1, VObj) and "text_parsed" in S.r1.attrs
        ok2 = isinstance(r, VObj) and "text_parsed" in r.attrs
        if not (ok1 and ok2):
            return False
        return z3.And(S.r1.attrs["text_parsed"].t == S.t1.t, r.attrs["text_parsed"].t == S.t2.t)
    return [V.Contract("celpy.celparser:CELParser.parse", [], name="CELParser.parse twice on one object: each tree is lark's tree for its own text",
                       invoke=invoke, ret=post, exc={}, cover=False, native=False)]


def build(rep, tier="quick", seed=0, known=None):
    from pyvc.parallel import run_contracts
    run_contracts(parse_is_a_function_of_its_text(), rep, known=known)
    grammar(rep)
    unparser(rep, known)
    listed = {k["id"]: k for k in (known or [])}
    for what, fs in (("precedence", precedence(rep, tier, seed)), ("dump", dump_round_trip(rep, tier, seed, known))):
        seen = set()
        for f in fs:
            if f["text"] in seen:
                continue
            seen.add(f["text"])
            o = rep.add(V.Obl(f"{what}[{f['text']!r}]", "B", "CELParser / DumpAST", "parses like its fully parenthesised form" if what == "precedence" else "dump re-parses to the same tree"))
            o.status, o.backend = "refuted", "cpython"
            o.detail = "failing input: " + repr(f)[:400]
            o.replay = {"replayed": True, "confirmed": True, "inputs": f}
            if what == "dump" and "C06-empty-list-dump" in listed and f.get("empty_list"):
                o.finding_id = "C06-empty-list-dump"
            elif what == "dump" and "C06-int-receiver-dot" in listed and f.get("int_dot"):
                o.finding_id = "C06-int-receiver-dot"
    for o in rep.obls:
        if o.id == "D1:adjacent[INT_LIT '.']" and o.status == "refuted" and "C06-int-receiver-dot" in listed:
            o.finding_id = "C06-int-receiver-dot"
    rep.trusted |= {"an LALR(1) conflict-free grammar is unambiguous; a stratified left-recursive operator grammar realises its precedence table",
                    "lark: LALR_Analyzer(strict=True) reports every conflict; the contextual lexer is maximal munch over the terminals acceptable in the state"}
    return {}
