"""C10 - type conversions round-trip and range-check."""
import datetime
import itertools
import random

import z3

import celpy
import celpy.celtypes as ct
import celpy.evaluation as ev
from contracts.specs import *
from contracts.evaluator_rules import is_error, sym_evaluator, install as install_rules
from pyvc import verify as V
from pyvc import symexec as se
from pyvc.parallel import run_contracts
from pyvc.values import VInt, VFloat, VStr, VBytes, VObj, VNative, VList, VTok, VTuple, VModel, NONE, FP, RNE

LEVEL = "proof"
bf = ev.base_functions
I64 = V.IntDom(ct.IntType, I64_MIN, I64_MAX1, "int")
U64 = V.IntDom(ct.UintType, 0, U64_MAX1, "uint")
DBL = V.FloatDom(ct.DoubleType)
STR = V.StrDom(ct.StringType)


def call(name, *args):
    return lambda run, S: run.call(VNative(bf[name]), [getattr(S, a) for a in args])


def nat(name, *args):
    return lambda N: bf[name](*[N[a] for a in args])


def trunc_rel(x, t):
    """t is x truncated toward zero (x a finite double, as a real number)"""
    r = z3.fpToReal(x)
    return z3.If(r >= 0, z3.And(z3.ToReal(t) <= r, r < z3.ToReal(t) + 1), z3.And(z3.ToReal(t) >= r, r > z3.ToReal(t) - 1))


def contracts():
    cs = []
    # ---- numeric conversions: exact value iff it fits, an error otherwise (never wrapped or clamped)
    cs.append(V.Contract("celpy.celtypes:IntType.__new__", [("x", U64)], name="int(uint)", invoke=call("int", "x"), native=nat("int", "x"),
                         ret=lambda S, r: z3.And(in_i64(S.x.t), is_int(r, ct.IntType, S.x.t)),
                         exc={ValueError: lambda S: z3.Not(in_i64(S.x.t))}, cover=False))
    cs.append(V.Contract("celpy.celtypes:UintType.__new__", [("x", I64)], name="uint(int)", invoke=call("uint", "x"), native=nat("uint", "x"),
                         ret=lambda S, r: z3.And(in_u64(S.x.t), is_int(r, ct.UintType, S.x.t)),
                         exc={ValueError: lambda S: z3.Not(in_u64(S.x.t))}, cover=False))
    for name, cls, inr in (("int", ct.IntType, in_i64), ("uint", ct.UintType, in_u64)):
        def ret(S, r, cls=cls, inr=inr):
            if not (isinstance(r, VInt) and r.cls is cls):
                return False
            return z3.And(z3.Not(z3.fpIsNaN(S.x.t)), z3.Not(z3.fpIsInf(S.x.t)), trunc_rel(S.x.t, r.t), inr(r.t))

        def bad(S, inr=inr):
            # an error exactly when the truncated value does not fit (NaN and the infinities included)
            t = z3.Int("t_witness")
            return z3.Or(z3.fpIsNaN(S.x.t), z3.fpIsInf(S.x.t),
                         z3.ForAll([t], z3.Implies(trunc_rel(S.x.t, t), z3.Not(inr(t)))))
        cs.append(V.Contract(f"celpy.celtypes:{cls.__name__}.__new__", [("x", DBL)], name=f"{name}(double)", invoke=call(name, "x"),
                             native=nat(name, "x"), ret=ret, exc={ValueError: bad, OverflowError: bad}, cover=False))
    # ---- text round trips (relative to the trusted rendering/parsing facts of CPython, see assumptions)
    for name, dom, cls in (("int", I64, ct.IntType), ("uint", U64, ct.UintType)):
        cs.append(V.Contract(f"celpy.celtypes:{cls.__name__}.__new__", [("x", dom)], name=f"{name}(string({name})) == x",
                             invoke=(lambda name: lambda run, S: run.call(VNative(bf[name]), [run.call(VNative(bf["string"]), [S.x])]))(name),
                             native=(lambda name: lambda N: bf[name](bf["string"](N["x"])))(name),
                             ret=(lambda cls: lambda S, r: is_int(r, cls, S.x.t))(cls), exc={}, cover=False))
    cs.append(V.Contract("celpy.celtypes:DoubleType.__new__", [("x", DBL)], name="double(string(double)) == x",
                         invoke=lambda run, S: run.call(VNative(bf["double"]), [run.call(VNative(bf["string"]), [S.x])]),
                         native=lambda N: bf["double"](bf["string"](N["x"])),
                         ret=lambda S, r: is_float(r, ct.DoubleType, S.x.t), exc={}, cover=False))
    cs.append(V.Contract("celpy.celtypes:StringType.__new__", [("s", STR)], name="string(bytes(string)) == s",
                         invoke=lambda run, S: run.call(VNative(bf["string"]), [run.call(VNative(bf["bytes"]), [S.s])]),
                         native=lambda N: bf["string"](bf["bytes"](N["s"])),
                         ret=lambda S, r: isinstance(r, VStr) and r.cls is ct.StringType and r.t == S.s.t, exc={}, cover=False))
    # arbitrary bytes: valid UTF-8 gives a string, invalid UTF-8 an error (a ValueError subclass)
    cs.append(V.Contract("celpy.celtypes:StringType.__new__", [("b", V.BytesDom(ct.BytesType))], name="string(bytes)",
                         invoke=call("string", "b"), native=nat("string", "b"),
                         ret=lambda S, r: isinstance(r, VStr) and r.cls is ct.StringType, exc={UnicodeDecodeError: lambda S: True}, cover=False))
    # unparsable text
    cs.append(V.Contract("celpy.celtypes:IntType.__new__", [("s", STR)], name="int(string)", invoke=call("int", "s"), native=nat("int", "s"),
                         ret=lambda S, r: isinstance(r, VInt) and r.cls is ct.IntType and in_i64(r.t), exc={ValueError: lambda S: True}, cover=False))
    cs.append(V.Contract("celpy.celtypes:UintType.__new__", [("s", STR)], name="uint(string)", invoke=call("uint", "s"), native=nat("uint", "s"),
                         ret=lambda S, r: isinstance(r, VInt) and r.cls is ct.UintType and in_u64(r.t), exc={ValueError: lambda S: True}, cover=False))
    # ---- a failing conversion is an evaluation error of the call expression, under the interpreter's function_eval ...
    for exc in (ValueError, TypeError, OverflowError, UnicodeDecodeError, AttributeError):
        def invoke(run, S, exc=exc):
            install_rules(run.engine)
            e = sym_evaluator(run, functions={"conv": None})
            thrower = VModel(lambda run, *a: (_ for _ in ()).throw(se.PyRaise(VObj(exc, {"args": VTuple([VStr(str, "boom")])}))), "conv")
            e.attrs["activation"].attrs["functions"].attrs["maps"].items[0].pairs[0][1] = thrower
            tok = VTok(__import__("lark").Token, z3.StringVal("conv"), {"type": VStr(str, "IDENT"), "value": VStr(str, "conv"),
                                                                        "line": VInt(int, 1), "column": VInt(int, 1)})
            return run.call(run.getattr(e, "function_eval"), [tok, VList(ct.ListType, [VInt(ct.IntType, 1)])])
        cs.append(V.Contract("celpy.evaluation:Evaluator.function_eval", [], name=f"function_eval: conversion raising {exc.__name__} is an error value",
                             invoke=invoke, ret=lambda S, r: is_error(r), exc={}, cover=False, native=False))
    return cs


def bounded(rep, tier, seed):
    """Timestamps and durations (whole seconds) through text, both runners; edges of the numeric conversions."""
    rng = random.Random(seed)
    fails = []
    n = 0
    for runner in (celpy.InterpretedRunner, celpy.CompiledRunner):
        celpy.CELParser.CEL_PARSER = None
        env = celpy.Environment(runner_class=runner)

        def ev_(text, **b):
            return env.program(env.compile(text)).evaluate(b)
        years = [1, 2, 99, 100, 999, 1000, 1582, 1970, 2000, 2024, 9999] + ([rng.randint(1, 9999) for _ in range(200)] if tier == "thorough" else [])
        for y in years:
            for (mo, d, h, mi, s_) in ((1, 1, 0, 0, 0), (12, 31, 23, 59, 59), (2, 28, 12, 30, 15)):
                n += 1
                t = ct.TimestampType(datetime.datetime(y, mo, d, h, mi, s_, tzinfo=datetime.timezone.utc))
                try:
                    got = ev_("timestamp(string(t)) == t", t=t)
                    ok = isinstance(got, ct.BoolType) and bool(got)
                except Exception as ex:
                    got, ok = repr(ex)[:150], False
                if not ok:
                    fails.append({"runner": runner.__name__, "cel": "timestamp(string(t)) == t", "t": str(t), "observed": repr(got)})
        # timestamps WRITTEN with an offset (negative and fractional-hour ones included) round-trip through their text as well
        for off in ("+00:00", "-00:30", "-03:30", "-09:30", "-05:00", "+05:45", "+05:30", "+14:00", "-12:00", "-01:15"):
            for base in ("2009-02-13T23:31:30", "2020-02-29T00:00:00", "1999-12-31T23:59:59"):
                n += 1
                try:
                    t = ct.TimestampType(base + off)
                    got = ev_("timestamp(string(t)) == t", t=t)
                    ok = isinstance(got, ct.BoolType) and bool(got)
                except Exception as ex:
                    got, ok = repr(ex)[:150], False
                if not ok:
                    fails.append({"runner": runner.__name__, "cel": "timestamp(string(t)) == t", "t": base + off, "observed": repr(got)})
        for secs in [0, 1, -1, 59, 60, 3600, 86399, 86400, -86400, 315576000000, -315576000000, 10**9 + 7] + \
                ([rng.randint(-315576000000, 315576000000) for _ in range(300)] if tier == "thorough" else [rng.randint(-315576000000, 315576000000) for _ in range(20)]):
            n += 1
            d_ = ct.DurationType(datetime.timedelta(seconds=secs))
            try:
                got = ev_("duration(string(d)) == d", d=d_)
                ok = isinstance(got, ct.BoolType) and bool(got)
            except Exception as ex:
                got, ok = repr(ex)[:150], False
            if not ok:
                fails.append({"runner": runner.__name__, "cel": "duration(string(d)) == d", "seconds": secs, "observed": repr(got)})
        for text in ["int(18446744073709551615u)", "uint(-1)", "int(9223372036854775808.0)", "uint(18446744073709551616.0)",
                     "int(double('inf'))", "int(double('nan'))", "uint(-0.5) == 0u ? 1 : 1/0", "int('abc')", "uint('-1')",
                     "string(b'\\xff')", "int(1e19)", "uint(1e20)", "int(-9223372036854777856.0)"]:
            n += 1
            try:
                got = ev_(text)
                if text.startswith("uint(-0.5)"):
                    continue
                fails.append({"runner": runner.__name__, "cel": text, "observed": repr(got), "expected": "evaluation error"})
            except ev.CELEvalError:
                pass
            except Exception as ex:
                fails.append({"runner": runner.__name__, "cel": text, "observed": f"escaped {type(ex).__name__}", "expected": "evaluation error"})
        for text, want in [("int(1.9)", 1), ("int(-1.9)", -1), ("uint(1.9)", 1), ("int(9223372036854774784.0)", 9223372036854774784),
                           ("int(string(-9223372036854775808)) == -9223372036854775808", True), ("uint(string(18446744073709551615u)) == 18446744073709551615u", True),
                           ("double(string(0.1)) == 0.1", True), ("double(string(1e308)) == 1e308", True), ("string(bytes('h\\u00e9llo')) == 'h\\u00e9llo'", True)]:
            n += 1
            try:
                got = ev_(text)
                ok = got == want
            except Exception as ex:
                got, ok = repr(ex)[:150], False
            if not ok:
                fails.append({"runner": runner.__name__, "cel": text, "observed": repr(got), "expected": want})
    celpy.CELParser.CEL_PARSER = None
    rep.bounded.append({"function": "timestamp/duration text round trip, conversion edges, both runners", "cases": n, "distinct_nontrivial": n,
                        "bound": "years 1..9999 at boundaries (plus samples), second counts at the range ends, fixed edge programs", "failures": len(fails)})
    if fails:
        o = rep.add(V.Obl("conversions#bounded", "B", "celtypes constructors", "bounded stand-in: time round trips and conversion edges"))
        o.status, o.backend = "refuted", "cpython"
        o.detail = "failing input: " + repr(fails[0])[:500]
        o.replay = {"replayed": True, "confirmed": True, "inputs": fails[0], "more": fails[1:6]}


def build(rep, tier="quick", seed=0, known=None):
    run_contracts(contracts(), rep, known=known)
    bounded(rep, tier, seed)
    rep.trusted |= {
        "str(int) is -?[0-9]+ and int(str(n)) == n; float(repr(x)) == x; bytes.decode('utf-8') inverts str.encode('utf-8')",
        "double -> int: every finite double is a real number; trunc enters through its defining inequalities (Real abstraction)",
        "strftime / pendulum.parse for timestamps and the float seconds of timedelta for durations: bounded stand-in only",
    }
    return {}
