"""C09 - lists, maps, strings and comprehension macros follow reference semantics."""
import itertools
import random

import re2
import z3

import celpy
import celpy.celtypes as ct
import celpy.evaluation as ev
from contracts.specs import *
from contracts import elems, macros as MAC
from contracts.evaluator_rules import rule_contract, STUB, TOK, is_error, sym_activation
from contracts.logic import OUTCOMES, ERR, desc
from pyvc import verify as V
from pyvc import symexec as se
from pyvc.parallel import run_contracts
from pyvc.values import VInt, VStr, VBytes, VList, VDict, VObj, VNative, VOpaque, VSymList, VSymIter, VModel, VTuple, NONE

LEVEL = "proof"
I64 = V.IntDom(ct.IntType, I64_MIN, I64_MAX1, "int")
STR = V.StrDom(ct.StringType)


def symlist(label="list"):
    return V.FnDom(lambda run, name: VSymList(ct.ListType, lambda run: VObj(elems.Elem, {}, label="elem"), label), "ListType[unknown length]")


def index_contracts():
    cs = []

    def post(S, r):
        n = S.m.length
        idx = S._run.ghost.get("indexed", [])
        if is_error(r):
            return z3.Or(S.i.t < 0, S.i.t >= n) if n is not None else False
        # a value: only for 0 <= i < size, and it is the element at that position
        if n is None or len(idx) != 1 or idx[0][2] is not r:
            return False
        return z3.And(S.i.t >= 0, S.i.t < n, idx[0][1] == S.i.t)
    c = rule_contract("member_index", ("member_index", [STUB("m"), STUB("i")]), [("m", symlist()), ("i", I64)],
                      "list[i] for a list of unknown length and any int64 i", post, cover=False)
    c.native = False

    def setup(run, S):
        V_ = S.m
        from pyvc.models import b_len
        b_len(run, V_)
    c.setup = setup
    c.witnesses = [("[1, 2, 3][-1]", lambda: _cel_is_error("[1, 2, 3][-1]")), ("[1, 2, 3][3]", lambda: _cel_is_error("[1, 2, 3][3]")),
                   ("[1, 2, 3][-3]", lambda: _cel_is_error("[1, 2, 3][-3]"))]
    cs.append(c)
    # non-integer index: an error
    c = rule_contract("member_index", ("member_index", [STUB("m"), STUB("i")]), [("m", symlist()), ("i", [V.FloatDom(ct.DoubleType), STR, V.NoneDom()])],
                      "list[non-int] is an error", lambda S, r: is_error(r), cover=False)
    c.native = False
    cs.append(c)
    return cs


def _cel_is_error(text):
    out = []
    for runner in (celpy.InterpretedRunner, celpy.CompiledRunner):
        celpy.CELParser.CEL_PARSER = None
        env = celpy.Environment(runner_class=runner)
        try:
            v = env.program(env.compile(text)).evaluate({})
            out.append(f"{runner.__name__}: {text} -> {v!r} (expected an evaluation error)")
        except ev.CELEvalError:
            pass
    celpy.CELParser.CEL_PARSER = None
    return (not out), "; ".join(out)


class InInv:
    """operator_in: while looping, no element so far was equal to the item, and result_value is an error value
    exactly when some comparison so far raised (differently typed element), otherwise still false."""

    def holds(self, run, env):
        rv = run.lookup("result_value", env)
        g = run.ghost
        raised = g.get("raised_before", z3.BoolVal(False))
        raised_now = bool(g.get("elem_raised"))
        any_raised = z3.Or(raised, z3.BoolVal(raised_now))
        if isinstance(rv, VInt) and rv.cls is ct.BoolType:
            return z3.And(rv.t == 0, z3.Not(any_raised))
        if is_error(rv):
            return any_raised
        return False

    def havoc(self, run, env):
        g = run.ghost
        rb = run.fresh("raised_before", z3.BoolSort())
        g["raised_before"] = rb
        g["elem_eqs"] = []
        g["elem_raised"] = []
        if run.branch(rb):
            env.vars["result_value"] = VObj(ev.CELEvalError, {"args": VTuple([])}, label="earlier-error")
        else:
            env.vars["result_value"] = VInt(ct.BoolType, 0)

    def done(self, run, env):
        run.ghost["final_raised"] = run.ghost["raised_before"]


def in_contracts():
    def invoke(run, S):
        elems.install(run, may_raise=True)
        run.ghost["loop_inv"] = {None: InInv()}
        S.item = VObj(elems.Elem, {}, label="item")
        S.container = VSymList(ct.ListType, elems.fresh_elem, "container")
        return run.call(VNative(ev.operator_in), [S.item, S.container])

    def post(S, r):
        # x in l  <=>  some element equals x ; the abstraction makes each comparison an arbitrary boolean:
        # a true result needs a comparison that was true, a false result none
        # like l.exists(y, y == x): true if some comparison is true (whatever else raised); otherwise an error if some
        # comparison raised; otherwise false
        g = S._run.ghost
        eqs = g.get("elem_eqs", [])
        found = z3.Or(eqs) if eqs else z3.BoolVal(False)
        if "final_raised" not in g:
            # returned from inside the loop: only with a true comparison
            return z3.And(found, is_bool(r, ct.BoolType, True))
        if is_error(r):
            return g["final_raised"]
        return z3.And(z3.Not(g["final_raised"]), is_bool(r, ct.BoolType, False))
    return [V.Contract("celpy.evaluation:operator_in", [], name="operator_in(x, list of unknown length)", invoke=invoke, ret=post,
                       exc={}, cover=False, native=False),
            V.Contract("celpy.evaluation:operator_in", [("item", ERR), ("container", symlist())], name="operator_in(error, l)",
                       ret=lambda S, r: r is S.item, exc={}, cover=False, native=False)]


def string_contracts():
    bf = ev.base_functions
    cs = [
        # (sizes are below 2**63: memory exhaustion is outside the model)
        V.Contract("celpy.evaluation:function_size", [("container", STR)], requires=lambda S: z3.Length(S.container.t) < I64_MAX1,
                   ret=lambda S, r: is_int(r, ct.IntType, z3.Length(S.container.t)), exc={}, cover=False),
        V.Contract("celpy.evaluation:function_size", [("container", V.BytesDom(ct.BytesType))], requires=lambda S: z3.Length(S.container.t) < I64_MAX1,
                   ret=lambda S, r: is_int(r, ct.IntType, z3.Length(S.container.t)), exc={}, cover=False),
        V.Contract("celpy.evaluation:function_size", [("container", symlist())],
                   setup=lambda run, S: run.assume(run.engine.models.b_len(run, S.container).t < I64_MAX1),
                   ret=lambda S, r: S.container.length is not None and is_int(r, ct.IntType, S.container.length), exc={}, cover=False, native=False),
        V.Contract("celpy.evaluation:function_startsWith", [("string", STR), ("fragment", STR)],
                   ret=lambda S, r: is_bool(r, ct.BoolType, z3.PrefixOf(S.fragment.t, S.string.t)), exc={}, cover=False),
        V.Contract("celpy.evaluation:function_endsWith", [("string", STR), ("fragment", STR)],
                   ret=lambda S, r: is_bool(r, ct.BoolType, z3.SuffixOf(S.fragment.t, S.string.t)), exc={}, cover=False),
        V.Contract("celpy.evaluation:function_contains", [("container", STR), ("item", STR)],
                   ret=lambda S, r: is_bool(r, ct.BoolType, z3.Contains(S.container.t, S.item.t)), exc={}, cover=False),
        V.Contract("celpy.celtypes:StringType.__add__", [("s", STR), ("t", STR)], name="string + string",
                   invoke=lambda run, S: run.call(VNative(bf["_+_"]), [S.s, S.t]), native=lambda N: bf["_+_"](N["s"], N["t"]),
                   ret=lambda S, r: isinstance(r, VStr) and r.cls is ct.StringType and r.t == z3.Concat(S.s.t, S.t.t), exc={}, cover=False),
        # (s + t).startsWith(s) through the two real functions
        V.Contract("celpy.evaluation:function_startsWith", [("s", STR), ("t", STR)], name="(s + t).startsWith(s)",
                   invoke=lambda run, S: run.call(VNative(bf["startsWith"]), [run.call(VNative(bf["_+_"]), [S.s, S.t]), S.s]),
                   native=lambda N: bf["startsWith"](bf["_+_"](N["s"], N["t"]), N["s"]),
                   ret=lambda S, r: is_bool(r, ct.BoolType, True), exc={}, cover=False),
    ]

    # matches: an invalid pattern is an error value, a valid one a bool (RE2's verdict trusted)
    def invoke_m(run, S):
        def search(run, pattern, text):
            k = run.choose(3, "re2-outcome")
            if k == 2:
                raise se.PyRaise(VObj(re2.error, {"args": VTuple([VStr(str, "bad pattern")])}))
            return NONE if k == 0 else VObj(elems.Elem, {}, label="match")
        run.engine.overrides[re2.search] = search
        return run.call(VNative(ev.function_matches), [S.text, S.pattern])
    cs.append(V.Contract("celpy.evaluation:function_matches", [("text", STR), ("pattern", STR)], invoke=invoke_m,
                         ret=lambda S, r: is_error(r) or (isinstance(r, VInt) and r.cls is ct.BoolType), exc={}, cover=False, native=False))
    return cs


def map_contracts():
    cs = []
    KEY = [STR, I64]
    shape = ("primary", [("map_lit", [("mapinits", [STUB("k0"), STUB("v0"), STUB("k1"), STUB("v1")])])])
    for kd in KEY:
        def post(S, r):
            dup = S.k0.t == S.k1.t
            if is_error(r):
                return dup
            if not (isinstance(r, VDict) and r.cls is ct.MapType):
                return False
            ok = len(r.pairs) == 2 and r.pairs[0][0] is S.k0 and r.pairs[0][1] is S.v0 and r.pairs[1][0] is S.k1 and r.pairs[1][1] is S.v1
            return z3.And(z3.Not(dup), z3.BoolVal(ok))
        cs.append(rule_contract("primary", shape, [("k0", kd), ("v0", I64), ("k1", kd), ("v1", I64)],
                                f"map literal with two {kd.label} keys: duplicate keys are an error", post, cover=False))
    # lookup: present key -> its value, missing key -> error (index and field selection)
    def mk_map(run, name):
        return VDict(ct.MapType, [[VStr(ct.StringType, z3.String("key_a")), VObj(elems.Elem, {}, label="va")],
                                  [VStr(ct.StringType, z3.String("key_b")), VObj(elems.Elem, {}, label="vb")]], {})
    MAPD = V.FnDom(mk_map, "map{a,b} with arbitrary string keys")

    def lookup_post(S, r):
        ka, kb = S.m.pairs[0][0].t, S.m.pairs[1][0].t
        if is_error(r):
            return z3.And(S.i.t != ka, S.i.t != kb)
        if r is S.m.pairs[0][1]:
            return S.i.t == ka
        if r is S.m.pairs[1][1]:
            return z3.And(S.i.t == kb, S.i.t != ka)
        return False
    c = rule_contract("member_index", ("member_index", [STUB("m"), STUB("i")]), [("m", MAPD), ("i", STR)],
                      "map[key]: value if present, error if missing", lookup_post, cover=False,
                      requires=lambda S: S.m.pairs[0][0].t != S.m.pairs[1][0].t)
    c.native = False
    cs.append(c)
    # has(): true iff the selection is not an error
    shape_has = ("primary", [("ident_arg", [TOK("IDENT", "has"), ("exprlist", [STUB("x")])])])
    c = rule_contract("primary", shape_has, [("x", OUTCOMES)], "has(e.f) is true iff selecting the field is not an error",
                      lambda S, r: is_bool(r, ct.BoolType, desc(S.x) != "E"), cover=False)
    cs.append(c)
    return cs


def build(rep, tier="quick", seed=0, known=None):
    from contracts import c09_macros
    cs = index_contracts() + in_contracts() + string_contracts() + map_contracts() + c09_macros.contracts()
    run_contracts(cs, rep, known=known)
    c09_macros.bounded(rep, tier, seed)
    rep.trusted |= {
        "z3 sequences/strings model list and str payloads (len counts code points); RE2 matching semantics are trusted",
        "element equality inside containers is an arbitrary boolean per comparison (same-typed elements)",
        "map/filter/list() over an iterator preserve order and count (builtin semantics)",
    }
    return {}
