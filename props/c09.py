"""C09 - lists, maps, strings and comprehension macros follow reference semantics."""
import itertools
import json
import os
import random

import re2
import z3

import celpy
import celpy.celtypes as ct
import celpy.evaluation as ev
from contracts.specs import *
from contracts import elems, macros as MAC
from contracts.evaluator_rules import rule_contract, STUB, TOK, is_error, sym_activation
from contracts.logic import OUTCOMES, ERR, desc
from pyvc import verify as V
from pyvc import symexec as se
from pyvc.parallel import run_contracts
from pyvc.values import VInt, VStr, VBytes, VList, VDict, VObj, VNative, VOpaque, VSymList, VSymIter, VModel, VTuple, NONE

LEVEL = "proof"
I64 = V.IntDom(ct.IntType, I64_MIN, I64_MAX1, "int")
STR = V.StrDom(ct.StringType)


def symlist(label="list"):
    return V.FnDom(lambda run, name: VSymList(ct.ListType, lambda run: VObj(elems.Elem, {}, label="elem"), label), "ListType[unknown length]")


def index_contracts():
    cs = []

    def post(S, r):
        n = S.m.length
        idx = S._run.ghost.get("indexed", [])
        if is_error(r):
            return z3.Or(S.i.t < 0, S.i.t >= n) if n is not None else False
        # a value: only for 0 <= i < size, and it is the element at that position
        if n is None or len(idx) != 1 or idx[0][2] is not r:
            return False
        return z3.And(S.i.t >= 0, S.i.t < n, idx[0][1] == S.i.t)
    c = rule_contract("member_index", ("member_index", [STUB("m"), STUB("i")]), [("m", symlist()), ("i", I64)],
                      "list[i] for a list of unknown length and any int64 i", post, cover=False)
    c.native = False

    def setup(run, S):
        V_ = S.m
        from pyvc.models import b_len
        b_len(run, V_)
    c.setup = setup
    c.witnesses = [("[1, 2, 3][-1]", lambda: _cel_is_error("[1, 2, 3][-1]")), ("[1, 2, 3][3]", lambda: _cel_is_error("[1, 2, 3][3]")),
                   ("[1, 2, 3][-3]", lambda: _cel_is_error("[1, 2, 3][-3]"))]
    cs.append(c)
    # non-integer index: an error
    c = rule_contract("member_index", ("member_index", [STUB("m"), STUB("i")]), [("m", symlist()), ("i", [V.FloatDom(ct.DoubleType), STR, V.NoneDom()])],
                      "list[non-int] is an error", lambda S, r: is_error(r), cover=False)
    c.native = False
    cs.append(c)
    return cs


def _cel_is_error(text):
    out = []
    for runner in (celpy.InterpretedRunner, celpy.CompiledRunner):
        celpy.CELParser.CEL_PARSER = None
        env = celpy.Environment(runner_class=runner)
        try:
            v = env.program(env.compile(text)).evaluate({})
            out.append(f"{runner.__name__}: {text} -> {v!r} (expected an evaluation error)")
        except ev.CELEvalError:
            pass
    celpy.CELParser.CEL_PARSER = None
    return (not out), "; ".join(out)


class InInv:
    """operator_in: while looping, no element so far was equal to the item, and result_value is an error value
    exactly when some comparison so far raised (differently typed element), otherwise still false."""

    def holds(self, run, env):
        rv = run.lookup("result_value", env)
        g = run.ghost
        raised = g.get("raised_before", z3.BoolVal(False))
        raised_now = bool(g.get("elem_raised"))
        any_raised = z3.Or(raised, z3.BoolVal(raised_now))
        if isinstance(rv, VInt) and rv.cls is ct.BoolType:
            return z3.And(rv.t == 0, z3.Not(any_raised))
        if is_error(rv):
            return any_raised
        return False

    def havoc(self, run, env):
        g = run.ghost
        rb = run.fresh("raised_before", z3.BoolSort())
        g["raised_before"] = rb
        g["elem_eqs"] = []
        g["elem_raised"] = []
        if run.branch(rb):
            env.vars["result_value"] = VObj(ev.CELEvalError, {"args": VTuple([])}, label="earlier-error")
        else:
            env.vars["result_value"] = VInt(ct.BoolType, 0)

    def done(self, run, env):
        run.ghost["final_raised"] = run.ghost["raised_before"]


def in_contracts():
    def invoke(run, S):
        elems.install(run, may_raise=True)
        run.ghost["loop_inv"] = {None: InInv()}
        S.item = VObj(elems.Elem, {}, label="item")
        S.container = VSymList(ct.ListType, elems.fresh_elem, "container")
        return run.call(VNative(ev.operator_in), [S.item, S.container])

    def post(S, r):
        # x in l  <=>  some element equals x ; the abstraction makes each comparison an arbitrary boolean:
        # a true result needs a comparison that was true, a false result none
        # like l.exists(y, y == x): true if some comparison is true (whatever else raised); otherwise an error if some
        # comparison raised; otherwise false
        g = S._run.ghost
        eqs = g.get("elem_eqs", [])
        found = z3.Or(eqs) if eqs else z3.BoolVal(False)
        if "final_raised" not in g:
            # returned from inside the loop: only with a true comparison
            return z3.And(found, is_bool(r, ct.BoolType, True))
        if is_error(r):
            return g["final_raised"]
        return z3.And(z3.Not(g["final_raised"]), is_bool(r, ct.BoolType, False))
    return [V.Contract("celpy.evaluation:operator_in", [], name="operator_in(x, list of unknown length)", invoke=invoke, ret=post,
                       exc={}, cover=False, native=False),
            V.Contract("celpy.evaluation:operator_in", [("item", ERR), ("container", symlist())], name="operator_in(error, l)",
                       ret=lambda S, r: r is S.item, exc={}, cover=False, native=False)]


def string_contracts():
    bf = ev.base_functions
    cs = [
        # (sizes are below 2**63: memory exhaustion is outside the model)
        V.Contract("celpy.evaluation:function_size", [("container", STR)], requires=lambda S: z3.Length(S.container.t) < I64_MAX1,
                   ret=lambda S, r: is_int(r, ct.IntType, z3.Length(S.container.t)), exc={}, cover=False),
        V.Contract("celpy.evaluation:function_size", [("container", V.BytesDom(ct.BytesType))], requires=lambda S: z3.Length(S.container.t) < I64_MAX1,
                   ret=lambda S, r: is_int(r, ct.IntType, z3.Length(S.container.t)), exc={}, cover=False),
        V.Contract("celpy.evaluation:function_size", [("container", symlist())],
                   setup=lambda run, S: run.assume(run.engine.models.b_len(run, S.container).t < I64_MAX1),
                   ret=lambda S, r: S.container.length is not None and is_int(r, ct.IntType, S.container.length), exc={}, cover=False, native=False),
        V.Contract("celpy.evaluation:function_startsWith", [("string", STR), ("fragment", STR)],
                   ret=lambda S, r: is_bool(r, ct.BoolType, z3.PrefixOf(S.fragment.t, S.string.t)), exc={}, cover=False),
        V.Contract("celpy.evaluation:function_endsWith", [("string", STR), ("fragment", STR)],
                   ret=lambda S, r: is_bool(r, ct.BoolType, z3.SuffixOf(S.fragment.t, S.string.t)), exc={}, cover=False),
        V.Contract("celpy.evaluation:function_contains", [("container", STR), ("item", STR)],
                   ret=lambda S, r: is_bool(r, ct.BoolType, z3.Contains(S.container.t, S.item.t)), exc={}, cover=False),
        V.Contract("celpy.celtypes:StringType.__add__", [("s", STR), ("t", STR)], name="string + string",
                   invoke=lambda run, S: run.call(VNative(bf["_+_"]), [S.s, S.t]), native=lambda N: bf["_+_"](N["s"], N["t"]),
                   ret=lambda S, r: isinstance(r, VStr) and r.cls is ct.StringType and r.t == z3.Concat(S.s.t, S.t.t), exc={}, cover=False),
        # (s + t).startsWith(s) through the two real functions
        V.Contract("celpy.evaluation:function_startsWith", [("s", STR), ("t", STR)], name="(s + t).startsWith(s)",
                   invoke=lambda run, S: run.call(VNative(bf["startsWith"]), [run.call(VNative(bf["_+_"]), [S.s, S.t]), S.s]),
                   native=lambda N: bf["startsWith"](bf["_+_"](N["s"], N["t"]), N["s"]),
                   ret=lambda S, r: is_bool(r, ct.BoolType, True), exc={}, cover=False),
    ]

    # matches: an invalid pattern is an error value, a valid one a bool (RE2's verdict trusted)
    def invoke_m(run, S):
        def search(run, pattern, text):
            k = run.choose(3, "re2-outcome")
            if k == 2:
                raise se.PyRaise(VObj(re2.error, {"args": VTuple([VStr(str, "bad pattern")])}))
            return NONE if k == 0 else VObj(elems.Elem, {}, label="match")
        run.engine.overrides[re2.search] = search
        return run.call(VNative(ev.function_matches), [S.text, S.pattern])
    cs.append(V.Contract("celpy.evaluation:function_matches", [("text", STR), ("pattern", STR)], invoke=invoke_m,
                         ret=lambda S, r: is_error(r) or (isinstance(r, VInt) and r.cls is ct.BoolType), exc={}, cover=False, native=False))
    return cs


def map_contracts():
    cs = []
    KEY = [STR, I64]
    shape = ("primary", [("map_lit", [("mapinits", [STUB("k0"), STUB("v0"), STUB("k1"), STUB("v1")])])])
    for kd in KEY:
        def post(S, r):
            dup = S.k0.t == S.k1.t
            if is_error(r):
                return dup
            if not (isinstance(r, VDict) and r.cls is ct.MapType):
                return False
            ok = len(r.pairs) == 2 and r.pairs[0][0] is S.k0 and r.pairs[0][1] is S.v0 and r.pairs[1][0] is S.k1 and r.pairs[1][1] is S.v1
            return z3.And(z3.Not(dup), z3.BoolVal(ok))
        cs.append(rule_contract("primary", shape, [("k0", kd), ("v0", I64), ("k1", kd), ("v1", I64)],
                                f"map literal with two {kd.label} keys: duplicate keys are an error", post, cover=False))
    # lookup: present key -> its value, missing key -> error (index and field selection)
    def mk_map(run, name):
        return VDict(ct.MapType, [[VStr(ct.StringType, z3.String("key_a")), VObj(elems.Elem, {}, label="va")],
                                  [VStr(ct.StringType, z3.String("key_b")), VObj(elems.Elem, {}, label="vb")]], {})
    MAPD = V.FnDom(mk_map, "map{a,b} with arbitrary string keys")

    def lookup_post(S, r):
        ka, kb = S.m.pairs[0][0].t, S.m.pairs[1][0].t
        if is_error(r):
            return z3.And(S.i.t != ka, S.i.t != kb)
        if r is S.m.pairs[0][1]:
            return S.i.t == ka
        if r is S.m.pairs[1][1]:
            return z3.And(S.i.t == kb, S.i.t != ka)
        return False
    c = rule_contract("member_index", ("member_index", [STUB("m"), STUB("i")]), [("m", MAPD), ("i", STR)],
                      "map[key]: value if present, error if missing", lookup_post, cover=False,
                      requires=lambda S: S.m.pairs[0][0].t != S.m.pairs[1][0].t)
    c.native = False
    cs.append(c)
    # has(): true iff the selection is not an error
    shape_has = ("primary", [("ident_arg", [TOK("IDENT", "has"), ("exprlist", [STUB("x")])])])
    c = rule_contract("primary", shape_has, [("x", OUTCOMES)], "has(e.f) is true iff selecting the field is not an error",
                      lambda S, r: is_bool(r, ct.BoolType, desc(S.x) != "E"), cover=False)
    cs.append(c)
    return cs


def field_contracts():
    """e.f on a map through the compiled runner is MapType.get(name): the value of a present key - whatever it is (null,
    false, 0, empty text or list) - and KeyError (converted by result()) for a missing one"""
    cs = []
    from contracts import c04_rules as R4
    for d in R4.KINDS[:10]:
        for present in (True, False):
            def invoke(run, S, d=d, present=present):
                S.v = d.make(run, "v")
                S.m = VDict(ct.MapType, [[VStr(ct.StringType, "f" if present else "g"), S.v]], {})
                return run.call(run.getattr(S.m, "get"), [VStr(ct.StringType, "f")])
            cs.append(V.Contract("celpy.celtypes:MapType.get", [], name=f"MapType.get(present={present}, value {d.label})", invoke=invoke, native=False, cover=False,
                                 ret=(lambda S, r: r is S.v) if present else None, exc={} if present else {KeyError: lambda S: True}))
    return cs


def matches_differential(rep, tier):
    """matches() against a reference matcher (Python re.search) on a fragment where RE2 and the reference agree: literals, `.`,
    classes, alternation, groups, * + ?, counted repetition, anchors; through both runners and both call forms"""
    import re as pyre
    import celpy
    atoms = ["a", "b", ".", "[ab]", "[^a]", "(a|b)", "(ab)", "^", "$"]
    quants = ["", "*", "+", "?", "{2}", "{1,2}", "{0}"]
    pats = []
    for a in atoms:
        for q in quants:
            if a in ("^", "$") and q:
                continue
            pats.append(a + q)
    two = [x + y for x in pats for y in pats if len(x + y) <= 9]
    import random
    rng = random.Random(0)
    if tier != "thorough":
        two = rng.sample(two, 400)
    pats = pats + two + ["a|b", "a|", "(a", "a{3,2}", "[a", "a**", "\\d", "a\\.b", "{2}", "a{2", "a{,2}"]
    texts = ["", "a", "b", "aa", "ab", "ba", "abc", "aab", "a{2}", "bb", "c"]
    envs = {}
    for rn, runner in (("I", celpy.InterpretedRunner), ("C", celpy.CompiledRunner)):
        celpy.CELParser.CEL_PARSER = None
        envs[rn] = celpy.Environment(runner_class=runner)
    progs = {(rn, form): envs[rn].program(envs[rn].compile(form)) for rn in envs for form in ("t.matches(p)", "matches(t, p)")}
    fails, n = [], 0
    devnull = os.open(os.devnull, os.O_WRONLY)
    saved = os.dup(2)
    os.dup2(devnull, 2)
    try:
        for p_ in pats:
            try:
                rx = pyre.compile(p_)
            except pyre.error:
                rx = None
            for t in texts:
                want = "error" if rx is None else bool(rx.search(t))
                for key, prog in progs.items():
                    n += 1
                    try:
                        got = bool(prog.evaluate({"t": ct.StringType(t), "p": ct.StringType(p_)}))
                    except ev.CELEvalError:
                        got = "error"
                    except Exception as ex:
                        got = f"escaped {type(ex).__name__}"
                    if got != want and not (rx is None and got == "error"):
                        if rx is not None and want != got and p_ in ("a{,2}",):
                            continue        # Python reads {,2} as a quantifier, RE2 as text: outside the common fragment
                        fails.append({"pattern": p_, "text": t, "runner_form": list(key), "observed": got, "reference": want})
    finally:
        os.dup2(saved, 2)
        os.close(saved)
        os.close(devnull)
    rep.bounded.append({"function": "function_matches vs re.search on the common regular-expression fragment", "cases": n, "distinct_nontrivial": len(pats) * len(texts),
                        "failures": len(fails), "bound": f"{len(pats)} patterns (one and two quantified atoms, invalid ones) x {len(texts)} texts x 2 runners x 2 call forms"})
    seen = set()
    for f in fails:
        if f["pattern"] in seen:
            continue
        seen.add(f["pattern"])
        o = rep.add(V.Obl(f"matches[{f['pattern']!r} on {f['text']!r}]", "B", "celpy.evaluation:function_matches", "agrees with the reference matcher; an invalid pattern is an evaluation error"))
        o.status, o.backend = "refuted", "cpython"
        o.detail = "failing input: " + json.dumps(f)
        o.replay = {"replayed": True, "confirmed": True, "inputs": f}


def build(rep, tier="quick", seed=0, known=None):
    from contracts import c09_macros
    cs = index_contracts() + in_contracts() + string_contracts() + map_contracts() + field_contracts() + c09_macros.contracts()
    run_contracts(cs, rep, known=known)
    c09_macros.bounded(rep, tier, seed)
    matches_differential(rep, tier)
    rep.trusted |= {
        "z3 sequences/strings model list and str payloads (len counts code points); RE2 matching semantics are trusted",
        "element equality inside containers is an arbitrary boolean per comparison (same-typed elements)",
        "map/filter/list() over an iterator preserve order and count (builtin semantics)",
    }
    return {}
