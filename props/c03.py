"""C03 - compiled and interpreted runners produce the same outcome."""
import ast as pyast
import glob
import itertools
import json
import multiprocessing as mp
import os
import random
import re

import lark

import celpy
import celpy.celtypes as ct
import celpy.evaluation as ev
from celpy.celparser import CELParseError
from pyvc import verify as V
from props import c04 as G

LEVEL = "proof"
MACROS = {"all", "exists", "exists_one", "map", "filter"}
NONSTANDARD = {"min", "reduce"}          # interpreter-only extensions, not CEL macros: outside the property's domain


ACTIVATION_ATTRS = {a for a in dir(ev.Activation) if not a.startswith("__")} | {"functions", "identifiers", "package", "annotations"}


def repo_root():
    return os.path.dirname(os.path.dirname(os.path.dirname(os.path.abspath(celpy.__file__))))


def corpus():
    out = []
    for fn in sorted(glob.glob(os.path.join(repo_root(), "features", "*.feature"))):
        binds, pkg = {}, None
        for line in open(fn, encoding="utf-8"):
            s = line.strip()
            if s.startswith("Scenario"):
                binds, pkg = {}, None
            m = re.match(r'(?:Given|and|And) bindings parameter "([^"]+)" is (.*)$', s)
            if m:
                try:
                    binds[m.group(1)] = eval(m.group(2), {"celpy": celpy, "datetime": __import__("datetime")})
                except Exception:
                    pass          # protobuf test messages: not constructible here; the name stays unbound for both runners
            m = re.match(r"(?:Given|and|And) container is (.*)$", s)
            if m:
                try:
                    pkg = pyast.literal_eval(m.group(1))
                except Exception:
                    pass
            m = re.match(r"When CEL expression (.*) is evaluated$", s)
            if m:
                try:
                    out.append((pyast.literal_eval(m.group(1)), dict(binds), pkg, os.path.basename(fn)))
                except Exception:
                    pass
    return out


def canon(v):
    if isinstance(v, float):
        return "nan" if v != v else repr(float(v))
    if isinstance(v, (list, tuple)):
        return [(type(x).__name__, canon(x)) for x in v]
    if isinstance(v, dict):
        return sorted((((type(k).__name__, canon(k)), (type(x).__name__, canon(x))) for k, x in v.items()), key=repr)
    return repr(v)


def outcome(env, text, act):
    try:
        a = env.compile(text)
    except CELParseError:
        return ("parse-error",)
    except Exception as ex:
        return ("ESCAPED at compile", type(ex).__name__)
    try:
        p = env.program(a)
    except Exception as ex:
        return ("ESCAPED at program construction", type(ex).__name__, str(ex)[:60])
    try:
        v = p.evaluate(act)
    except ev.CELEvalError:
        return ("error",)
    except Exception as ex:
        return ("ESCAPED at evaluate", type(ex).__name__, str(ex)[:60])
    return ("value", type(v).__name__, canon(v))


def regions(tree, act):
    """known-finding regions an expression falls into (decided on the parse tree / activation, not on the outcome)"""
    r = set()
    macro_vars = set()
    for n in tree.iter_subtrees():
        if n.data == "member_object":
            r.add("C03-object-construction")
        if n.data == "dot_ident_arg":
            r.add("C03-dot-ident-call")
        if n.data == "ident" and n.children[0].value in ACTIVATION_ATTRS:
            r.add("C03-activation-attribute-names")
        if n.data == "ident_arg" and n.children[0].value in ("has", "dyn"):
            args = n.children[1].children if len(n.children) == 2 else []
            if len(args) != 1:
                r.add("C03-malformed-macro")
            elif n.children[0].value == "has":
                r.add("C03-has-python-bool")
        if n.data == "member_dot_arg" and n.children[1].value in MACROS:
            args = n.children[2].children if len(n.children) == 3 else []
            ok = len(args) == 2
            if ok:
                v = args[0]
                while isinstance(v, lark.Tree) and len(v.children) == 1 and v.data != "ident":
                    v = v.children[0]
                ok = isinstance(v, lark.Tree) and v.data == "ident"
                if ok:
                    macro_vars.add(v.children[0].value)
            if not ok:
                r.add("C03-malformed-macro")
    macro_args = {id(n.children[2]) for n in tree.iter_subtrees() if n.data == "member_dot_arg" and len(n.children) == 3 and n.children[1].value in MACROS}
    for n in tree.iter_subtrees():
        if id(n) in macro_args:
            continue          # the body of a macro: the compiled macros return a body's error value as their result (fixed, 9fc53b6)
        if n.data in ("exprlist", "mapinits", "fieldinits") and any(isinstance(c, lark.Tree) and yields_error_value(c) for c in n.children):
            r.add("C03-error-value-as-element-or-argument")
    if any("." in k and k.split(".")[0] in macro_vars for k in act):
        r.add("C03-dotted-binding-shadows-macro-variable")
    return r


def yields_error_value(n):
    """the compiled code of this sub-expression returns an error as a *value* (via result()) instead of raising"""
    while isinstance(n, lark.Tree) and len(n.children) == 1 and n.data not in ("ident", "literal", "ident_arg", "dot_ident", "list_lit", "map_lit", "unary_not", "unary_neg"):
        n = n.children[0]
    if not isinstance(n, lark.Tree):
        return False
    if n.data in ("conditionalor", "conditionaland") and len(n.children) == 2:
        return True
    if n.data == "expr" and len(n.children) == 3:
        return True
    if n.data == "relation" and len(n.children) == 2 and n.children[0].data == "relation_in":
        return True
    if n.data == "ident_arg":
        name = n.children[0].value
        if name == "dyn" and len(n.children) == 2 and n.children[1].children:
            return yields_error_value(n.children[1].children[0])
        return (name not in ev.base_functions and name != "has") or name == "matches"
    if n.data == "dot_ident_arg":
        return True
    if n.data == "member_dot_arg":
        name = n.children[1].value
        return name not in ev.base_functions or name in MACROS or name == "matches"       # matches() RETURNS its error for a bad pattern
    return False


def out_of_domain(tree):
    return any(n.data == "member_dot_arg" and n.children[1].value in NONSTANDARD for n in tree.iter_subtrees())


_ENVS = {}


def env_for(rname, pkg):
    if (rname, pkg) not in _ENVS:
        runner = {"I": celpy.InterpretedRunner, "C": celpy.CompiledRunner}[rname]
        celpy.CELParser.CEL_PARSER = None
        _ENVS[(rname, pkg)] = celpy.Environment(package=pkg, runner_class=runner)
    return _ENVS[(rname, pkg)]


_ITEMS = []


def _chunk(idx):
    items = [_ITEMS[i] for i in idx]       # inherited through fork: CEL timestamps do not survive pickling
    import logging
    logging.disable(logging.CRITICAL)
    devnull = os.open(os.devnull, os.O_WRONLY)
    os.dup2(devnull, 2)
    plain = lark.Lark(open(os.path.join(os.path.dirname(ev.__file__), "cel.lark")).read(), parser="lalr", start="expr", maybe_placeholders=False,
                      g_regex_flags=re.M, priority="invert", lexer_callbacks={"IDENT": celpy.CELParser.ambiguous_literals})
    out, n, skipped = [], 0, 0
    for text, act, pkg, src in items:
        try:
            tree = plain.parse(text)
        except Exception:
            tree = None
        if tree is not None and out_of_domain(tree):
            skipped += 1
            continue
        for rn in ("I", "C"):       # create both environments before any evaluation (parser singleton policy)
            env_for(rn, pkg)
        oi = outcome(env_for("I", pkg), text, dict(act))
        oc = outcome(env_for("C", pkg), text, dict(act))
        n += 1
        if oi != oc:
            out.append({"text": text, "source": src, "interpreter": oi, "compiled": oc, "package": pkg, "bindings": sorted(act),
                        "regions": sorted(regions(tree, act)) if tree is not None else []})
    return out, n, skipped


def differential(rep, tier, seed):
    rng = random.Random(seed)
    items = list(corpus())
    n_corpus = len(items)
    gen = list(G.ATOMS)
    for a in G.ATOMS:
        gen += list(G.gen1(a)) + list(G.gen_malformed(a))
    pairs = list(itertools.product(G.ATOMS, repeat=2))
    if tier != "thorough":
        pairs = rng.sample(pairs, 900)
    for a, b in pairs:
        gen += list(G.gen2(a, b))
    d2 = list(gen)
    for _ in range(20000 if tier == "thorough" else 4000):
        a, b, c = rng.choice(d2), rng.choice(d2), rng.choice(d2)
        gen.append(rng.choice([f"({a}) {rng.choice(G.BIN)} ({b})", f"({a}) ? ({b}) : ({c})", f"[{a}].map(x, {b})", f"size({a}) + {b}", f"!({a}) || {b}",
                               f"({a}) || ({b}) || ({c})", f"({a}) && ({b})", f"[{a}, {b}].exists(x, x == {c})", f"[{a}, {b}].all(x, {c})",
                               f"[{a}].filter(x, {b})", f"[{a}].exists_one(x, {b})", f"has(vm.k) && ({a})", f"({a}) in [{b}, {c}]"]))
    gen = list(dict.fromkeys(gen))
    items += [(t, G.ACT, None, "generated") for t in gen]
    global _ITEMS
    _ITEMS = items
    chunks = [list(range(i, len(items), 64)) for i in range(64)]
    ctx = mp.get_context("fork")
    diffs, n, skipped = [], 0, 0
    with ctx.Pool(min(16, os.cpu_count() or 4)) as pool:
        for d, k, s in pool.imap_unordered(_chunk, chunks):
            diffs += d
            n += k
            skipped += s
    rep.bounded.append({"function": "InterpretedRunner vs CompiledRunner on the same program and activation", "cases": n, "distinct_nontrivial": n, "failures": len(diffs),
                        "bound": f"{n_corpus} expressions of the conformance corpus (features/*.feature) with their bindings and containers; every construct over {len(G.ATOMS)} atoms of every "
                                 f"value kind; binary forms over {len(pairs)} atom pairs; sampled depth-3 combinations incl. short-circuit, ternary and macro contexts; "
                                 f"{skipped} expressions using the interpreter-only .min()/.reduce() extensions skipped"})
    return diffs


TEXT = {"neg": "-({c})", "not": "!({c})", "add_l": "({c}) + {y}", "sub_r": "{y} - ({c})", "div_l": "({c}) / {y}", "mod_r": "{y} % ({c})", "lt_l": "({c}) < {y}", "eq_r": "{y} == ({c})",
        "in_l": "({c}) in {y}", "index": "({c})[{y}]", "dot": "({c}).f", "call": "size({c})", "method": "({c}).contains({y})", "list": "[{c}]", "paren": "({c})", "or_l": "({c}) || {y}",
        "and_r": "{y} && ({c})", "tern_c": "({c}) ? {y} : {z}", "tern_l": "{y} ? ({c}) : {z}",
        "relation_lt": "{x} < {y}", "relation_le": "{x} <= {y}", "relation_gt": "{x} > {y}", "relation_ge": "{x} >= {y}", "relation_eq": "{x} == {y}", "relation_ne": "{x} != {y}",
        "relation_in": "{x} in {y}", "addition_add": "{x} + {y}", "addition_sub": "{x} - {y}", "multiplication_mul": "{x} * {y}", "multiplication_div": "{x} / {y}",
        "multiplication_mod": "{x} % {y}", "unary_not": "!{x}", "unary_neg": "-{x}", "member_index": "{x}[{y}]", "conditionalor": "{x} || {y}", "conditionaland": "{x} && {y}",
        "expr": "{c} ? {x} : {y}", "list literal": "[{x}, {y}]", "map literal": "{{{x}: {y}}}", "member_dot": "{x}.f", "call size/1": "size({x})", "call size/2": "size({x}, {y})",
        "call nosuch/1": "nosuch({x})", "call nosuch/2": "nosuch({x}, {y})", "method contains": "{x}.contains({y})", "method nosuch": "{x}.nosuch({y})", "method size/0": "{x}.size()"}
SAMPLES = ["1", "true", "false", "-9223372036854775808", "(1/0)", "[1]", '"a"', "null", "1u", "1.5", '{"f": 1}', '(true || 1/0)', '(false || 1/0)', "0"]


def witness_for(oid):
    m = re.match(r"sim2\[(\w+)\((\w+)\(x\)\)\]", oid)
    shapes = []
    if m:
        outer, inner = m.groups()
        it_ = TEXT[inner].replace("({c})", "{x}").replace("{c}", "{x}").replace("{y}", "{yi}").replace("{z}", "{zi}")
        shapes = [TEXT[outer].replace("({c})", it_).replace("{c}", it_), TEXT[outer].replace("{c}", it_)]      # without and with parentheses around the inner construct
    else:
        m = re.match(r"sim\[([^\]]+)\]", oid)
        key = m.group(1) if m else None
        if key not in TEXT:
            key = next((k for k in TEXT if key and key.startswith(k)), None)
        if key is None:
            return None
        shapes = [TEXT[key].replace("{c}", "{cc}")]
    for rn in ("I", "C"):
        env_for(rn, None)
    import itertools as it
    for shape in shapes:
        names = sorted(set(re.findall(r"\{(\w+)\}", shape)))
        n = 0
        for combo in it.product(SAMPLES, repeat=len(names)):
            n += 1
            if n > 3000:
                break
            text = shape
            for nm, v in zip(names, combo):
                text = text.replace("{" + nm + "}", v)
            oi, oc = outcome(env_for("I", None), text, dict(G.ACT)), outcome(env_for("C", None), text, dict(G.ACT))
            if oi != oc and oi[0] != "parse-error":
                return {"text": text, "interpreter": oi, "compiled": oc}
    return None


def build(rep, tier="quick", seed=0, known=None):
    listed = {k["id"]: k for k in (known or [])}
    from contracts import c03_sim as SIM
    from pyvc.parallel import run_contracts
    nested = SIM.nested_contracts()
    if tier != "thorough":          # quick: every pair that involves a unary operator (the foldable ones) or a parenthesis; thorough: all 361 pairs
        logical = ("or_l", "and_r", "tern_c", "tern_l")
        nested = [c for c in nested if any(k in c.name for k in ("[neg(", "(neg(", "[not(", "(not(", "[paren(", "(paren("))
                  or any(c.name.startswith(f"sim2[{o}({i}(") for o in logical for i in logical)]       # ... and every nesting of the error-absorbing constructs
    run_contracts(SIM.contracts() + SIM.result_contracts() + nested, rep, known=known)
    SIM.same_callable_table(rep)
    # the other half of every simulation contract: the transpiler methods whose emitted text is executed, and result()
    from pyvc import symexec as se_
    srcs = se_.Engine().sources
    for m in ("expr", "conditionalor", "conditionaland", "relation", "addition", "multiplication", "unary", "member_dot", "member_dot_arg", "member_index",
              "primary", "ident_arg", "list_lit", "map_lit", "exprlist", "mapinits", "paren_expr", "func_name"):
        try:
            fn = ev.Phase1Transpiler.__dict__[m]
            node, ms = srcs.node_for_function(fn)
            rep.functions[f"Phase1Transpiler.{m} (emits the text co-executed in sim[...])"] = {"target": f"celpy.evaluation:Phase1Transpiler.{m}", "file": ms.path, "lines": ms.span(node), "sha256": ms.sha256}
        except Exception as ex:
            rep.errors.append(f"Phase1Transpiler.{m}: {ex!r}")
    wit = (listed.get("C03-error-value-as-element-or-argument") or {}).get("witness", {}).get("text")
    wit_diverges = None
    if wit:
        for rn in ("I", "C"):
            env_for(rn, None)
        oi, oc = outcome(env_for("I", None), wit, dict(G.ACT)), outcome(env_for("C", None), wit, dict(G.ACT))
        wit_diverges = oi != oc
    for o in rep.obls:
        # the deductive image of the recorded finding: a sub-expression that RETURNS an error value as a container element / call argument
        in_region = "error value" in o.id and any(k in o.id for k in ("sim[list literal]", "sim[map literal]", "sim[call ", "sim[method "))
        if o.id.startswith("sim2[") and ("[list(" in o.id or "(list(" in o.id):
            in_region = "error value" in o.id or any(k in o.id for k in ("(or_l(", "(and_r(", "(tern_c(", "(tern_l("))
        if o.status == "refuted" and in_region and "C03-error-value-as-element-or-argument" in listed:
            o.finding_id = "C03-error-value-as-element-or-argument"
            o.replay = {"replayed": True, "confirmed": bool(wit_diverges), "inputs": {"text": wit}, "observed": f"interpreter {oi}, compiled {oc}"}
    # replay: for a refuted simulation obligation search a concrete program of the same shape on which the runners differ
    for o in rep.obls:
        if o.status == "refuted" and o.id.startswith(("sim[", "sim2[")) and not getattr(o, "finding_id", None) and not (o.replay or {}).get("confirmed"):
            w = witness_for(o.id)
            if w is not None:
                o.replay = {"replayed": True, "confirmed": True, "inputs": w}
                o.detail = "failing input: " + json.dumps(w)[:400]
    rep.trusted |= {"the operator and function implementations are shared by both runners (obligations E:same-callable) and deterministic: equal arguments give equal outcomes",
                    "their raise envelopes are the declared ones (C04 layer 2, bounded)",
                    "macros: both runners are proved against one specification in C08 / C09; has() and object construction are recorded findings"}
    seen = set()
    for d in differential(rep, tier, seed):
        reg = [r for r in d["regions"] if r in listed]
        key = (d["interpreter"][:2], d["compiled"][:2], tuple(reg)) if reg else d["text"]
        if key in seen:
            continue
        seen.add(key)
        o = rep.add(V.Obl(f"same-outcome[{d['text'][:80]!r}]", "B", "InterpretedRunner / CompiledRunner", "both runners: equal value of the same CEL type, or an evaluation error in both"))
        o.status, o.backend = "refuted", "cpython"
        o.detail = "failing input: " + json.dumps(d)[:600]
        o.replay = {"replayed": True, "confirmed": True, "inputs": d}
        if reg:
            o.finding_id = reg[0]
    return {}
