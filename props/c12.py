"""C12 - names resolve to the longest matching binding; macro variables are scoped."""
import itertools
import random

import z3

import celpy
import celpy.celtypes as ct
import celpy.evaluation as ev
from contracts.specs import *
from pyvc import verify as V
from pyvc import symexec as se
from pyvc.parallel import run_contracts
from pyvc.values import VInt, VStr, VObj, VDict, VList, VNative, VTuple, VModel, NONE

LEVEL = "proof"


# ------------------------------------------------------------------ Referent.value precedence
def referent_contracts():
    cs = []
    for has_container, value_set in itertools.product((False, True), repeat=2):
        def invoke(run, S, has_container=has_container, value_set=value_set):
            S.ann = VObj(ct.TypeType, {}, label="annotation")
            S.cont = VDict(ev.NameContainer, [], {"parent": NONE}) if has_container else NONE
            S.val = VObj(ct.IntType, {}, label="value")
            r = VObj(ev.Referent, {"annotation": S.ann, "container": S.cont, "_value": S.val if value_set else NONE,
                                   "_value_set": se.lift(value_set)}, label="referent")
            return run.getattr(r, "value")

        def post(S, r, has_container=has_container, value_set=value_set):
            return r is (S.cont if has_container else (S.val if value_set else S.ann))
        cs.append(V.Contract("celpy.evaluation:Referent.value", [], name=f"Referent.value(container={has_container}, value_set={value_set})",
                             invoke=invoke, ret=post, exc={}, cover=False, native=False))
    return cs


# ------------------------------------------------------------------ resolve_name: package-prefix loop over the parent chain
def resolve_contracts():
    cs = []
    for npkg, chain in itertools.product((0, 1, 2), (1, 2, 3)):
        def invoke(run, S, npkg=npkg, chain=chain):
            pkg = ["p", "q"][:npkg]
            containers = []
            parent = NONE
            for i in reversed(range(chain)):
                c = VDict(ev.NameContainer, [], {"parent": parent})
                c.attrs["_ix"] = i
                containers.insert(0, c)
                parent = c
            S.containers = containers
            table = {}
            S.table = table

            def find_name(run, self, path):
                key = (self.attrs["_ix"], tuple(se.conc(x) for x in path.items))
                if key not in table:
                    if run.branch(z3.Bool(f"found_{key[0]}_{'_'.join(key[1])}")):
                        table[key] = VObj(ev.Referent, {}, label=f"ref{key}")
                    else:
                        table[key] = None
                if table[key] is None:
                    raise se.PyRaise(VObj(ev.NameContainer.NotFound, {"args": VTuple([path])}))
                return table[key]
            run.engine.overrides[ev.NameContainer.find_name] = find_name
            S.pkg = pkg
            return run.call(run.getattr(containers[0], "resolve_name"), [VStr(str, ".".join(pkg)) if pkg else NONE, VStr(str, "a")])

        def expected(S):
            # the first package level (longest first) at which any container of the chain matches; local-most container wins
            for k in range(len(S.pkg), -1, -1):
                path = tuple(S.pkg[:k]) + ("a",)
                hits = [S.table.get((i, path)) for i in range(len(S.containers))]
                hits = [h for h in hits if h is not None]
                if hits:
                    return hits[0]
            return None

        def post(S, r):
            return r is expected(S) and r is not None

        def none_found(S):
            return expected(S) is None
        cs.append(V.Contract("celpy.evaluation:NameContainer.resolve_name", [],
                             name=f"resolve_name(package of {npkg} components, chain of {chain} containers)", invoke=invoke, ret=post,
                             exc={KeyError: none_found}, cover=False, native=False))
    return cs


def activation_contracts():
    cs = []
    for found, value_set in ((True, True), (True, False), (False, None)):
        def invoke(run, S, found=found, value_set=value_set):
            S.val = VObj(ct.IntType, {}, label="value")
            S.ann = VObj(ct.TypeType, {}, label="annotation")
            S.fn = VObj(ct.FunctionType, {}, label="function")
            ref = VObj(ev.Referent, {"annotation": S.ann, "container": NONE, "_value": S.val, "_value_set": se.lift(bool(value_set))})

            def resolve_name(run, self, package, name):
                S.seen_package = package
                if found:
                    return ref
                raise se.PyRaise(VObj(KeyError, {"args": VTuple([name])}))
            run.engine.overrides[ev.NameContainer.resolve_name] = resolve_name
            S.package = VStr(str, "p.q")
            act = VObj(ev.Activation, {"identifiers": VDict(ev.NameContainer, [], {"parent": NONE}), "package": S.package,
                                       "functions": VDict(dict, [[VStr(str, "name"), S.fn]])})
            return run.call(run.getattr(act, "resolve_variable"), [VStr(str, "name")])

        def post(S, r, found=found, value_set=value_set):
            pkg_ok = (not found) or S.seen_package is S.package
            want = (S.val if value_set else S.ann) if found else S.fn
            return bool(pkg_ok and r is want)
        cs.append(V.Contract("celpy.evaluation:Activation.resolve_variable", [], name=f"resolve_variable(found={found}, value_set={value_set})",
                             invoke=invoke, ret=post, exc={}, cover=False, native=False))
    return cs


# ------------------------------------------------------------------ bounded-exhaustive: the trie, packages, macros, both runners
def reference_resolve(bindings, package, ref):
    """Appendix A.5.  bindings: dotted name -> value ; returns ('value', v) or ('error',)"""
    pk = package.split(".") if package else []
    parts = ref.split(".")
    for k in range(len(pk), -1, -1):
        Q = pk[:k]
        cands = []
        for name, v in bindings.items():
            nparts = name.split(".")
            if nparts[:len(Q)] != Q:
                continue
            rest = nparts[len(Q):]
            if rest and rest == parts[:len(rest)]:
                cands.append((len(rest), v))
        prefix_hit = any(n.split(".")[:len(Q) + 1] == Q + [parts[0]] for n in bindings)
        if cands or prefix_hit:
            if not cands:
                return ("error",)
            j, v = max(cands, key=lambda c: c[0])
            for field in parts[j:]:
                if isinstance(v, dict) and field in v:
                    v = v[field]
                else:
                    return ("error",)
            return ("value", v)
    return ("error",)


def _plain(v):
    """CEL value -> plain Python data (through the library's JSON encoder), so that comparisons are native"""
    import json
    return json.loads(json.dumps(v, cls=celpy.adapter.CELJSONEncoder))


def bounded(rep, tier, seed):
    rng = random.Random(seed)
    fails = []
    n = 0
    names = ["a", "a.b", "a.b.c"]
    kinds = [None, "var", "map"]          # absent / bound to an int / bound to a map carrying the rest of the path
    packages = ["", "p", "p.q"]
    refs = ["a", "a.b", "a.b.c"]
    distinct = set()

    def value_for(name, kind, tag):
        if kind == "var":
            return 100 * tag + len(name)
        rest = [x for x in ["b", "c"] if x not in name.split(".")]
        v = 100 * tag + 50 + len(name)
        for f in reversed(rest):
            v = {f: v}
        return v if isinstance(v, dict) else {"z": v}
    for runner in (celpy.InterpretedRunner, celpy.CompiledRunner):
        celpy.CELParser.CEL_PARSER = None        # one parser per tree class (the library's singleton)
        for pkg in packages:
            for prefix in [""] + [p + "." for p in ("p", "p.q") if pkg.startswith(p)]:
                for combo in itertools.product(kinds, repeat=len(names)):
                    if all(k is None for k in combo):
                        continue
                    bindings = {prefix + nm: value_for(nm, k, 1 + len(prefix)) for nm, k in zip(names, combo) if k}
                    # the mapping handed to evaluate() is unordered as far as the property goes: every listing order
                    # (quick: as written and reversed; thorough: all permutations) must resolve alike
                    orders = [list(bindings)]
                    if len(bindings) > 1:
                        orders = list(itertools.permutations(bindings)) if tier == "thorough" else [list(bindings), list(reversed(list(bindings)))]
                    for order, ref in itertools.product(orders, refs):
                        bindings = {k: bindings[k] for k in order}
                        n += 1
                        distinct.add((pkg, tuple(bindings), ref))
                        want = reference_resolve(bindings, pkg, ref)
                        try:
                            decls = {k: (ct.MapType if isinstance(v, dict) else ct.IntType) for k, v in bindings.items()}
                            env = celpy.Environment(package=pkg or None, annotations=decls, runner_class=runner)
                            prog = env.program(env.compile(ref))
                            got = prog.evaluate({k: celpy.json_to_cel(v) for k, v in bindings.items()})
                            got = ("value", _plain(got)) if not isinstance(got, ev.NameContainer) else ("container",)
                        except ev.CELEvalError:
                            got = ("error",)
                        except Exception as ex:
                            got = ("escaped", type(ex).__name__)
                        # a reference that is only a proper prefix of bound names (no binding is a prefix of it): the
                        # statement does not say what it denotes -> not checked
                        unspecified = want == ("error",) and any(k.split(".")[-len(k.split(".")):] and
                                                                 (k + ".").find("." + ref + ".") >= 0 or k.startswith(ref + ".") for k in bindings)
                        if got != want and not unspecified:
                            fails.append({"runner": runner.__name__, "package": pkg, "bindings": bindings, "reference": ref,
                                          "observed": repr(got), "expected": repr(want)})
        # a component of the package that is itself bound to a plain value does not stand in the way of a simple name
        for pkg, extra in (("p.q", {"p": 5}), ("p.q", {"p.q": 5}), ("p", {"p": 5})):
            for b, ref, want in (({"a": 3}, "a", 3), ({"a": 3}, "a + 1", 4), ({}, "a", "error")):
                n += 1
                bindings = dict(extra, **b)
                try:
                    env = celpy.Environment(package=pkg, annotations={k: ct.IntType for k in bindings}, runner_class=runner)
                    got = _plain(env.program(env.compile(ref)).evaluate({k: ct.IntType(v) for k, v in bindings.items()}))
                except ev.CELEvalError:
                    got = "error"
                except Exception as ex:
                    got = f"escaped {type(ex).__name__}"
                if got != want:
                    fails.append({"runner": runner.__name__, "package": pkg, "bindings": bindings, "reference": ref, "observed": repr(got), "expected": repr(want)})
        # macro scoping
        for text, b, want in [("[1, 2].map(x, x + y)", {"x": 10, "y": 100}, [101, 102]), ("[1, 2].map(n, [7, 8].map(n, n))", {}, [[7, 8], [7, 8]]),
                              ("[1, 2].map(x, [7].map(y, x + y))", {}, [[8], [9]]), ("[[1, 2], [3]].map(l, l.map(x, x * 2))", {}, [[2, 4], [6]]),
                              ("[1].map(x, x) == [1] && x == 5", {"x": 5}, True), ("[1, 2].filter(x, [1, 3].exists(y, y == x))", {}, [1]),
                              ("[1, 2].map(x, x) + [x]", {"x": 9}, [1, 2, 9]),
                              # a name that is declared but NOT bound: the macro variable exists inside the body only
                              # a name that is declared but NOT bound: the macro variable exists inside the body only, so after the
                              # macro the name denotes what it denotes without the macro (whatever the library makes of a bare
                              # declaration - the statement does not say; the expectation is the macro-free program's outcome)
                              ("[[1, 2].map(x, x), [x]][1]", {"x": None}, ("same-as", "[x]")), ("[[1, 2].map(x, x), [x]][0]", {"x": None}, [1, 2]),
                              ("[[1].map(y, [2].map(x, x + y)), [x]][1]", {"x": None}, ("same-as", "[x]")),
                              ("[[1, 2].map(x, x + y), [y]][1]", {"x": None, "y": 5}, [5]),
                              ("[[1, 2].filter(x, x > 1), [x]][1]", {"x": None}, ("same-as", "[x]")),
                              ("[[1, 2].exists(x, x > 1), type(x) == int][1]", {"x": None}, ("same-as", "type(x) == int"))]:
            n += 1

            def outcome(text_):
                try:
                    env = celpy.Environment(annotations={k: ct.IntType for k in b}, runner_class=runner)
                    r = env.program(env.compile(text_)).evaluate({k: ct.IntType(v) for k, v in b.items() if v is not None})
                    try:
                        return _plain(r)
                    except TypeError:
                        return repr(r)
                except ev.CELEvalError:
                    return "error"
                except Exception as ex:
                    return "escaped " + repr(ex)[:120]
            got = outcome(text)
            if isinstance(want, tuple):
                want = outcome(want[1])
            ok = got == want and not str(got).startswith("escaped")
            if not ok:
                fails.append({"runner": runner.__name__, "cel": text, "bindings": b, "observed": repr(got), "expected": want})
    celpy.CELParser.CEL_PARSER = None
    rep.bounded.append({"function": "dotted names / packages / macro scoping against the specification resolver, both runners",
                        "cases": n, "distinct_nontrivial": len(distinct),
                        "bound": "every assignment {absent, variable, map} to the prefixes of a.b.c, under each enclosing package prefix, x packages {none, p, p.q} x references a, a.b, a.b.c; 7 macro programs",
                        "failures": len(fails), "exhaustive_for_alphabet": True})
    rep._c12_fails = fails
    return fails


def container_shadow_region(f):
    """Region of the recorded finding: a bound name that is a dotted prefix of the reference (possibly the reference itself,
    under some package level) is also a proper dotted prefix of another bound name, and the library hands back its internal
    NameContainer instead of the value selected from that binding."""
    if "reference" not in f or f["observed"] != "('container',)":
        return False
    ref, names = f["reference"], list(f["bindings"])
    for k in names:
        for q in ("", "p.", "p.q."):
            full = q + ref
            if (k == full or full.startswith(k + ".")) and any(o.startswith(k + ".") for o in names):
                return True
    return False


def build(rep, tier="quick", seed=0, known=None):
    # (Referent.value's container-over-value precedence is an implementation rule, not part of the property: a repair of
    #  the recorded finding would change it, so it is not put under contract - the exhaustive enumeration decides its effect)
    run_contracts(resolve_contracts() + activation_contracts(), rep, known=known)
    fails = bounded(rep, tier, seed)
    # every failing configuration is an obligation of its own (so that a listed finding is identified by its exact input)
    seen = set()
    listed = {k["id"]: k for k in (known or [])}
    for f in fails:
        key = f"{f['runner']}|{f.get('package', '')}|{sorted(f['bindings']) if 'bindings' in f else ''}|{f.get('reference', f.get('cel'))}"
        if key in seen:
            continue
        seen.add(key)
        o = rep.add(V.Obl(f"resolution[{key}]", "B", "NameContainer / Activation", "resolution equals the specification resolver"))
        o.status, o.backend = "refuted", "cpython"
        o.detail = "failing input: " + repr(f)[:400]
        o.replay = {"replayed": True, "confirmed": True, "inputs": f}
        if "C12-container-shadows-value" in listed and container_shadow_region(f):
            o.finding_id = "C12-container-shadows-value"
    rep.trusted |= {
        "find_name is abstracted in the resolve_name proof (arbitrary found / not found per container and path); the trie itself "
        "(load_annotations, load_values, find_name, dict_find_name) is covered by the exhaustive enumeration over the a.b.c alphabet",
    }
    return {}
