"""C19 - translated value clauses keep their operator, operands and literals."""
import ast
import fnmatch
import itertools
import random

import celpy
import celpy.celtypes as ct
import celpy.c7nlib as c7nlib
import celpy.evaluation as ev
import xlate.c7n_to_cel as X
from celpy.adapter import json_to_cel
from pyvc import verify as V
from pyvc.source import Sources

LEVEL = "proof"
R = X.C7N_Rewriter
ALPHABET = ["\\", '"', "'", "n", "x", "u", "0", "1", "a", "\n", "\t", "é", "\U0001f431", " "]


def _lark():
    celpy.CELParser.CEL_PARSER = None
    celpy.CELParser()
    return celpy.CELParser.CEL_PARSER


class Eval:
    """Evaluate emitted CEL with the library (interpreter, c7nlib functions bound)."""

    def __init__(self):
        celpy.CELParser.CEL_PARSER = None      # the library's parser is a singleton bound to the first tree class
        self.env = celpy.Environment(annotations=dict(c7nlib.DECLARATIONS))
        self.cache = {}

    def run(self, text, **bindings):
        if text not in self.cache:
            self.cache[text] = self.env.program(self.env.compile(text), functions=c7nlib.FUNCTIONS)
        return self.cache[text].evaluate(bindings)


def fail(rep, oid, func, desc, inputs, observed, kind="E"):
    o = V.table_obl(rep, oid, func, desc, False, f"input: {inputs!r} -> {observed}", kind=kind)
    o.replay = {"replayed": True, "confirmed": True, "inputs": inputs, "observed": str(observed)[:500]}
    return o


# ------------------------------------------------------------------ (1) every table entry is syntactically valid CEL
def tables(rep):
    src = Sources().module_source(X.__file__)
    rep.functions["xlate.c7n_to_cel (tables)"] = {"file": src.path, "sha256": src.sha256}
    lark = _lark()
    n = 0
    for fn in ast.walk(src.tree):
        if not isinstance(fn, ast.FunctionDef):
            continue
        for node in ast.walk(fn):
            if not isinstance(node, ast.Dict) or len(node.keys) < 2:
                continue
            try:
                keys = [ast.literal_eval(k) for k in node.keys]
                vals = [ast.literal_eval(v) for v in node.values]
            except Exception:
                continue
            if not all(isinstance(k, str) for k in keys) or not all(isinstance(v, str) for v in vals):
                continue
            if not any("{0}" in v for v in vals):
                continue        # resource tables hold fragments: they are checked through their rewriter below
            for k, v in zip(keys, vals):
                text = v.format("left_operand", "right_operand") if "{0}" in v or "{1}" in v else v
                n += 1
                oid = f"table[{fn.name}:{node.lineno}][{k}]"
                try:
                    lark.parse(text)
                    V.table_obl(rep, oid, fn.name, f"table entry for {k!r} is valid CEL", True, f"input: {text}")
                except Exception as ex:
                    fail(rep, oid, fn.name, f"table entry for {k!r} is valid CEL", {"function": fn.name, "key": k, "text": text},
                         f"does not parse: {str(ex).splitlines()[0][:120]}")
    if n == 0:
        rep.errors.append("C19: no table entries extracted")
    resource_tables(rep, src, lark)


UNION_FILTER = {"op": "eq", "days": 21, "key": "tag:ASSET", "value": "X", "state": True, "type": "t", "whitelist": ["a1"],
                "tag": "maid_status", "web-acl": "acl", "name": "n", "statistics": "Average", "period": 60,
                "default_tz": "et", "match-resource": True, "operator": "or"}


def resource_tables(rep, src, lark):
    """Every resource type listed in a rewriter's table yields syntactically valid CEL: the real rewriter is called
    for every key of every dict it subscripts with its `resource` parameter (tables found in the AST)."""
    n = 0
    for cls in src.tree.body:
        if not isinstance(cls, ast.ClassDef):
            continue
        for fn in cls.body:
            if not isinstance(fn, ast.FunctionDef) or not fn.args.args or fn.args.args[0].arg != "resource":
                continue
            tables_ = {}
            for nd in ast.walk(fn):
                if isinstance(nd, ast.Assign) and isinstance(nd.value, ast.Dict) and isinstance(nd.targets[0], ast.Name):
                    try:
                        tables_[nd.targets[0].id] = [ast.literal_eval(k) for k in nd.value.keys]
                    except Exception:
                        pass
            used = {nd.value.id for nd in ast.walk(fn) if isinstance(nd, ast.Subscript) and isinstance(nd.value, ast.Name)
                    and isinstance(nd.slice, ast.Name) and nd.slice.id == "resource"}
            for t in sorted(used & set(tables_)):
                for k in tables_[t]:
                    n += 1
                    oid = f"resource-table[{fn.name}][{k}]"
                    desc = f"{fn.name}({k!r}, ...) emits syntactically valid CEL"
                    try:
                        text = getattr(R, fn.name)(k, dict(UNION_FILTER))
                    except Exception as ex:
                        o = rep.add(V.Obl(oid, "U", fn.name, desc))
                        o.detail = f"representative filter not accepted by the rewriter: {ex!r}"[:200]
                        continue
                    try:
                        lark.parse(text)
                        V.table_obl(rep, oid, fn.name, desc, True, f"input: {text}")
                    except Exception as ex:
                        fail(rep, oid, fn.name, desc, {"rewriter": fn.name, "resource": k, "filter": UNION_FILTER, "cel": text},
                             f"does not parse: {str(ex).splitlines()[0][:120]}")
    if n == 0:
        rep.errors.append("C19: no resource tables found")


# ------------------------------------------------------------------ (2) each op names its relation
def _rel(op, r, v):
    if op in ("eq", "equal"):
        return r == v
    if op in ("ne", "not-equal"):
        return r != v
    if op in ("gt", "greater-than"):
        return r > v
    if op in ("ge", "gte"):
        return r >= v
    if op in ("lt", "less-than"):
        return r < v
    if op in ("le", "lte"):
        return r <= v
    if op == "in":
        return r in v
    if op in ("ni", "not-in"):
        return r not in v
    if op == "contains":
        return v in r
    if op == "glob":
        return fnmatch.fnmatch(r, v)
    if op == "regex":
        import re
        return re.search(v, r) is not None
    if op == "intersect":
        return bool(set(r) & set(v))
    if op == "difference":
        return bool(set(r) - set(v))
    raise KeyError(op)


OPERANDS = {
    "scalar": [(1, 2), (2, 2), (3, 2), (-5, 0), ("a", "b"), ("b", "b"), ("c", "b"), ("", "a"), ("Ab", "ab")],
    "in": [("a", ["a", "b"]), ("c", ["a", "b"]), ("a", []), (2, [1, 2, 3]), (5, [1, 2, 3])],
    "contains": [(["a", "b"], "a"), (["a", "b"], "c"), ([], "a"), ("hello", "ell"), ("hello", "xyz")],
    "glob": [("web-01", "web-*"), ("db-01", "web-*"), ("a", "?"), ("ab", "?"), ("x.py", "*.py")],
    "regex": [("web-01", "^web"), ("db-01", "^web"), ("abc", "b"), ("abc", "^b")],
    "sets": [(["a", "b"], ["b", "c"]), (["a"], ["b"]), ([], ["a"]), (["a", "b"], ["a", "b"]), (["a", "b", "c"], ["a"])],
}


def op_table(rep):
    E = Eval()
    func = "C7N_Rewriter.atomic_op_map / type_value_rewrite"
    for op in R.atomic_op_map:
        if op.startswith("__"):
            continue
        group = {"in": "in", "ni": "in", "not-in": "in", "contains": "contains", "glob": "glob", "regex": "regex",
                 "intersect": "sets", "difference": "sets"}.get(op, "scalar")
        for r, v in OPERANDS[group]:
            oid = f"op[{op}][{r!r},{v!r}]"
            desc = f"`op: {op}` decides like the relation it names"
            try:
                text = R.type_value_rewrite("ec2", {"type": "value", "key": "Attr", "op": op, "value": v})
                got = E.run(text, resource=json_to_cel({"Attr": r}))
                want = _rel(op, r, v)
                ok = isinstance(got, ct.BoolType) and bool(got) == want
                if ok:
                    V.table_obl(rep, oid, func, desc, True, f"input: {text} on Attr={r!r}")
                else:
                    fail(rep, oid, func, desc, {"op": op, "resource_value": r, "policy_value": v, "cel": text}, f"{got!r}, expected {want}")
            except Exception as ex:
                fail(rep, oid, func, desc, {"op": op, "resource_value": r, "policy_value": v}, f"raised {ex!r}"[:300])
    # present / absent family
    for value, want_present in (("present", True), ("not-null", True), ("absent", False), ("empty", False)):
        for res, has in (({"Attr": "x"}, True), ({"Other": 1}, False)):
            oid = f"op[{value}][{'has' if has else 'missing'}]"
            try:
                text = R.type_value_rewrite("ec2", {"type": "value", "key": "Attr", "value": value})
                got = E.run(text, resource=json_to_cel(res))
                ok = isinstance(got, (bool, ct.BoolType)) and bool(got) == (has == want_present)
                (V.table_obl(rep, oid, func, f"value: {value}", True, f"input: {text}") if ok else
                 fail(rep, oid, func, f"value: {value}", {"value": value, "resource": res, "cel": text}, repr(got)))
            except Exception as ex:
                fail(rep, oid, func, f"value: {value}", {"value": value, "resource": res}, f"raised {ex!r}"[:300])
    # boolean literals and value_type transforms with unambiguous meaning
    cases = [
        ({"key": "Flag", "op": "eq", "value": True}, {"Flag": True}, True), ({"key": "Flag", "op": "eq", "value": True}, {"Flag": False}, False),
        ({"key": "Flag", "op": "eq", "value": False}, {"Flag": False}, True), ({"key": "Flag", "op": "ne", "value": True}, {"Flag": False}, True),
        ({"key": "Flag", "op": "ne", "value": "false"}, {"Flag": True}, True), ({"key": "Flag", "op": "eq", "value": "true"}, {"Flag": True}, True),
        ({"key": "Count", "op": "eq", "value": 0}, {"Count": 0}, True), ({"key": "Count", "op": "eq", "value": 1}, {"Count": 2}, False),
        ({"key": "Count", "op": "gt", "value": 0}, {"Count": 1}, True), ({"key": "Count", "op": "lt", "value": 1}, {"Count": 1}, False),
        ({"key": "Items", "op": "gt", "value": 2, "value_type": "size"}, {"Items": [1, 2, 3]}, True),
        ({"key": "Items", "op": "gt", "value": 3, "value_type": "size"}, {"Items": [1, 2, 3]}, False),
        ({"key": "Items", "op": "eq", "value": 2, "value_type": "unique_size"}, {"Items": ["a", "a", "b"]}, True),
        ({"key": "N", "op": "eq", "value": 42, "value_type": "integer"}, {"N": "42"}, True),
        ({"key": "N", "op": "lt", "value": 42, "value_type": "integer"}, {"N": "42"}, False),
        ({"key": "Name", "op": "eq", "value": "web", "value_type": "normalize"}, {"Name": "  WEB "}, True),
        ({"key": "Name", "op": "eq", "value": "web", "value_type": "normalize"}, {"Name": "db"}, False),
        ({"key": "Zones", "op": "in", "value": "us-east-1a", "value_type": "swap"}, {"Zones": ["us-east-1a", "us-east-1b"]}, True),
        ({"key": "Zones", "op": "in", "value": "us-east-1c", "value_type": "swap"}, {"Zones": ["us-east-1a", "us-east-1b"]}, False),
        ({"key": "a.b", "op": "eq", "value": 1}, {"a": {"b": 1}}, True), ({"key": "a.b", "op": "eq", "value": 1}, {"a": {"b": 2}}, False),
        ({"key": "tag:Owner", "op": "eq", "value": "me"}, {"Tags": [{"Key": "Owner", "Value": "me"}]}, True),
        ({"key": "tag:aws:x:y", "op": "eq", "value": "v"}, {"Tags": [{"Key": "aws", "Value": "v"}, {"Key": "aws:x:y", "Value": "w"}]}, False),
        ({"key": "tag:aws:x:y", "op": "eq", "value": "w"}, {"Tags": [{"Key": "aws", "Value": "v"}, {"Key": "aws:x:y", "Value": "w"}]}, True),
        ({"key": "length(Items)", "op": "eq", "value": 2}, {"Items": [1, 2]}, True),
        # a string literal that happens to be one of the shorthand words is still a literal when an op is given
        ({"key": "State", "op": "eq", "value": "absent"}, {"State": "absent"}, True), ({"key": "State", "op": "eq", "value": "absent"}, {"State": "x"}, False),
        ({"key": "State", "op": "ne", "value": "present"}, {"State": "present"}, False), ({"key": "State", "op": "eq", "value": "empty"}, {"State": "empty"}, True),
        ({"key": "State", "op": "eq", "value": "not-null"}, {"State": "not-null"}, True), ({"key": "State", "op": "in", "value": ["absent", "present"]}, {"State": "present"}, True),
        # normalize folds case like str.lower (not casefold) and trims
        ({"key": "Name", "op": "eq", "value": "straße", "value_type": "normalize"}, {"Name": " Straße "}, True),
        ({"key": "Name", "op": "eq", "value": "strasse", "value_type": "normalize"}, {"Name": "Straße"}, False),
        # tag names with periods; booleans / null inside list values; a null value
        ({"key": "tag:app.owner", "op": "eq", "value": "me"}, {"Tags": [{"Key": "app.owner", "Value": "me"}], "tag:app": {"owner": "x"}}, True),
        ({"key": "tag:app.owner", "op": "eq", "value": "me"}, {"Tags": [{"Key": "app.owner", "Value": "you"}], "tag:app": {"owner": "me"}}, False),
        ({"key": "Flag", "op": "in", "value": [True, "x"]}, {"Flag": True}, True), ({"key": "Flag", "op": "in", "value": [False, "x"]}, {"Flag": True}, False),
        ({"key": "Opt", "op": "in", "value": [None, "x"]}, {"Opt": None}, True), ({"key": "Opt", "op": "eq", "value": None}, {"Opt": None}, True),
        ({"key": "Opt", "op": "ne", "value": None}, {"Opt": None}, False),
    ]
    for i, (flt, res, want) in enumerate(cases):
        oid = f"clause[{i}:{flt}]"
        try:
            text = R.type_value_rewrite("ec2", dict(flt, type="value"))
            got = E.run(text, resource=json_to_cel(res))
            ok = isinstance(got, ct.BoolType) and bool(got) == want
            (V.table_obl(rep, oid, func, "clause decides like the relation applied directly", True, f"input: {text} on {res}") if ok else
             fail(rep, oid, func, "clause decides like the relation applied directly", {"filter": flt, "resource": res, "cel": text}, f"{got!r}, expected {want}"))
        except Exception as ex:
            fail(rep, oid, func, "clause decides like the relation applied directly", {"filter": flt, "resource": res}, f"raised {ex!r}"[:300])


# ------------------------------------------------------------------ (3) literals: bounded-exhaustive quoting round trip
def quoting(rep, tier, seed):
    E = Eval()
    maxlen = 4 if tier == "thorough" else 3
    n = 0
    fails = []
    distinct = set()
    rng = random.Random(seed)
    pool = [""]
    for L in range(1, maxlen + 1):
        combos = itertools.product(ALPHABET, repeat=L)
        if L == maxlen and tier != "thorough":
            combos = (tuple(rng.choice(ALPHABET) for _ in range(L)) for _ in range(1500))
        pool += ["".join(c) for c in combos]
    for s in pool:
        for quote in ('"', "'"):
            n += 1
            lit = R.q(s, quote=quote)
            distinct.add(lit)
            try:
                got = E.run(lit)
                ok = isinstance(got, ct.StringType) and str.__eq__(got, s)
            except Exception as ex:
                got, ok = f"raised {type(ex).__name__}", False
            if not ok:
                fails.append({"string": s, "quote": quote, "literal": lit, "observed": repr(got)})
        if len(fails) >= 3:
            break
    rep.bounded.append({"function": "C7N_Rewriter.q -> CEL string literal -> evaluate", "cases": n, "distinct_nontrivial": len(distinct),
                        "bound": f"all strings of length <= {maxlen - (0 if tier == 'thorough' else 1)} (sampled at {maxlen}) over a {len(ALPHABET)}-symbol adversarial alphabet x 2 quote styles",
                        "failures": len(fails)})
    if fails:
        o = rep.add(V.Obl("q#bounded-roundtrip", "B", "C7N_Rewriter.q", "every policy string appears as a literal that evaluates back to it"))
        o.status, o.backend = "refuted", "cpython"
        o.detail = "failing input: " + repr(fails[0])
        o.replay = {"replayed": True, "confirmed": True, "inputs": fails[0], "more": fails[1:]}
    # keys, tag names and URLs pass through q as well
    for i, (flt, res) in enumerate([
        ({"key": 'we"ird', "op": "eq", "value": 'a"b'}, {'we"ird': 'a"b'}),
        ({"key": "tag:my\\tag", "op": "eq", "value": "x"}, {"Tags": [{"Key": "my\\tag", "Value": "x"}]}),
        ({"key": "Name", "op": "eq", "value": "back\\nslash"}, {"Name": "back\\nslash"}),
        ({"key": "Name", "op": "eq", "value": "two\nlines"}, {"Name": "two\nlines"}),
        ({"key": "Name", "op": "eq", "value": "it's"}, {"Name": "it's"}),
    ]):
        oid = f"literal-clause[{i}]"
        try:
            text = R.type_value_rewrite("ec2", dict(flt, type="value"))
            got = E.run(text, resource=json_to_cel(res))
            ok = isinstance(got, ct.BoolType) and bool(got)
            (V.table_obl(rep, oid, "key_to_cel/value_to_cel", "strings from the policy evaluate back to themselves", True, f"input: {text}", kind="B") if ok else
             fail(rep, oid, "key_to_cel/value_to_cel", "strings from the policy evaluate back to themselves", {"filter": flt, "resource": res, "cel": text}, repr(got), kind="B"))
        except Exception as ex:
            fail(rep, oid, "key_to_cel/value_to_cel", "strings from the policy evaluate back to themselves", {"filter": flt, "resource": res}, f"raised {ex!r}"[:300], kind="B")


# ------------------------------------------------------------------ (4) durations
def durations(rep, tier):
    func = "C7N_Rewriter.seconds_to_duration / age_to_duration"
    E = Eval()
    secs = sorted(set(list(range(0, 130)) + [3599, 3600, 3601, 86399, 86400, 86401, 90061, 172800, 10**6, 10**9, 315576000000]
                      + ([i * 977 for i in range(2000)] if tier == "thorough" else [i * 7919 for i in range(60)])))
    n = 0
    fails = []
    for s in secs:
        n += 1
        lit = R.seconds_to_duration(s)
        try:
            got = E.run(f"duration({lit})")
            ok = isinstance(got, ct.DurationType) and got.total_seconds() == s
        except Exception as ex:
            got, ok = f"raised {type(ex).__name__}: {ex.args[:1]}", False
        if not ok:
            fails.append({"seconds": s, "literal": lit, "observed": repr(got)})
    for days in (0, 1, 0.5, 7, 30, 90, 365, 0.25, 1.5):
        n += 1
        lit = R.age_to_duration(days)
        try:
            got = E.run(f"duration({lit})")
            ok = isinstance(got, ct.DurationType) and got.total_seconds() == int(days * 86400)
        except Exception as ex:
            got, ok = f"raised {type(ex).__name__}: {ex.args[:1]}", False
        if not ok:
            fails.append({"days": days, "literal": lit, "observed": repr(got)})
    rep.bounded.append({"function": func, "cases": n, "distinct_nontrivial": n, "bound": "second counts 0..129, unit boundaries, a stride sweep, day counts", "failures": len(fails)})
    if fails:
        o = rep.add(V.Obl("durations#bounded", "B", func, "day and second counts become duration literals denoting the same length of time"))
        o.status, o.backend = "refuted", "cpython"
        o.detail = "failing input: " + repr(fails[0])
        o.replay = {"replayed": True, "confirmed": True, "inputs": fails[0], "more": fails[1:4]}


def build(rep, tier="quick", seed=0, known=None):
    tables(rep)
    op_table(rep)
    quoting(rep, tier, seed)
    durations(rep, tier)
    from contracts import xlate_values
    xlate_values.contracts_into(rep, known)
    rep.trusted |= {"fnmatch / re as oracles for glob / regex", "the library's own parser and evaluator decide what the emitted text means"}
    return {}
