"""C16 - concurrent evaluations in separate environments do not interfere."""
import itertools
import json
import os
import random
import subprocess
import sys
from concurrent.futures import ThreadPoolExecutor

import z3

import celpy
import celpy.celtypes as ct
import celpy.evaluation as ev
from contracts import c05_runners
from pyvc import verify as V
from pyvc import symexec as se
from pyvc.parallel import run_contracts
from pyvc.values import VInt, VStr, VObj, VDict, VList, VNative, VTuple, VModel, NONE

LEVEL = "proof"
VERIF = V.VERIF


def environment_contracts():
    """Environment.__init__ / compile / program: every write goes to the new environment (or objects it creates); the only
    process-shared effects are initialise-once and idempotent: the recursion limit set to the constant 2500 and the parser
    cached for the runner's tree class."""
    cs = []
    for runner_cls in (celpy.InterpretedRunner, celpy.CompiledRunner):
        def invoke(run, S, runner_cls=runner_cls):
            shared = []
            S.shared = shared
            run.engine.overrides[sys.setrecursionlimit] = lambda run, n: (shared.append(("recursionlimit", n)), NONE)[1]
            run.engine.overrides[sys.getrecursionlimit] = lambda run: VInt(int, run.fresh_int("current_limit"))

            def parser(run, tree_class=None):
                shared.append(("parser-cache", tree_class))
                return VObj(celpy.CELParser, {"parser": VObj(object, {}, label="lark")}, label="cel_parser")
            run.engine.overrides[celpy.CELParser] = parser
            S.annotations = VDict(dict, [[VStr(str, "x"), VNative(ct.IntType)]])
            env = run.call(VNative(celpy.Environment), [], {"annotations": S.annotations, "runner_class": VNative(runner_cls)})
            S.env = env
            return env

        def post(S, r, runner_cls=runner_cls):
            run = S._run
            ok_shared = True
            for what, v in S.shared:
                if what == "recursionlimit":
                    ok_shared = ok_shared and isinstance(v, VInt) and z3.is_int_value(v.t) and v.t.as_long() == 2500
                else:
                    ok_shared = ok_shared and isinstance(v, VNative) and v.obj is runner_cls.tree_node_class
            bad = [t for t, w in run.heap_writes if isinstance(t, VNative)] + list(run.global_overlay)
            return bool(ok_shared and not bad and isinstance(r, VObj) and r.cls is celpy.Environment)
        cs.append(V.Contract("celpy:Environment.__init__", [], name=f"Environment(runner_class={runner_cls.__name__}): shared effects are constant and idempotent",
                             invoke=invoke, ret=post, exc={}, cover=False, native=False))
    return cs


def compile_contracts():
    """Environment.compile -> CELParser.parse: the text being parsed is state of this environment's parser object only."""
    import celpy.celparser as cp
    cs = []

    def invoke(run, S):
        S.lark = VObj(object, {"parse": VModel(lambda run, text: VObj(object, {"text_parsed": text}, label="tree"), "Lark.parse")}, label="lark")
        S.parser = VObj(cp.CELParser, {"parser": S.lark}, label="cel_parser")
        run.class_overlay[(cp.CELParser, "CEL_PARSER")] = S.lark
        S.env = VObj(celpy.Environment, {"cel_parser": S.parser}, label="environment")
        S.text = VStr(str, z3.String("text"))
        pre = {}
        c05_runners.reachable(S.env, pre)
        S.pre = pre
        return run.call(run.getattr(S.env, "compile"), [S.text])

    def post(S, r):
        run = S._run
        shared = [(t, w) for t, w in run.heap_writes if isinstance(t, VNative)]
        parsed_own_text = isinstance(r, VObj) and r.attrs.get("text_parsed") is not None and r.attrs["text_parsed"].t.eq(S.text.t)
        return bool(not shared and not run.global_overlay and parsed_own_text)
    cs.append(V.Contract("celpy:Environment.compile", [], name="Environment.compile: parses its own text; no class- or module-level state written",
                         invoke=invoke, ret=post, exc={}, cover=False, native=False))
    return cs


def evaluate_no_shared_effects():
    """evaluate() of either runner performs no process-shared effect at all (recursion limit, parser cache, module globals)."""
    cs = []
    for c in c05_runners.contracts():
        inv, ret, exc = c.invoke, c.ret, c.exc

        def invoke(run, S, inv=inv):
            S.proc_shared = []
            run.engine.overrides[sys.setrecursionlimit] = lambda run, n: (S.proc_shared.append(("recursionlimit", n)), NONE)[1]
            run.engine.overrides[sys.getrecursionlimit] = lambda run: VInt(int, run.fresh_int("current_limit"))
            return inv(run, S)
        c2 = V.Contract(c.target, [], name=c.name + " + no process-shared effect", invoke=invoke,
                        ret=(lambda ret: lambda S, r: ret(S, r) and not S.proc_shared)(ret),
                        exc={k: (lambda f: lambda S: f(S) and not S.proc_shared)(f) for k, f in exc.items()}, cover=False, native=False)
        cs.append(c2)
    return cs


PAIRS = [
    ("x || y", {"x": True, "y": False}, "y || y", {"x": True, "y": False}),
    ("x + 1", {"x": 1}, "x + 1", {"x": 100}),
    ("[1, 2].map(v, v + x)", {"x": 10}, "[1, 2].map(v, v + x)", {"x": 20}),
    ("a.b > 3 ? a.b : 0", {"a.b": 5}, "a.b > 3 ? a.b : 0", {"a.b": 1}),
]


def bounded(rep, tier, seed):
    specs = []
    for ra, rb in itertools.product(("InterpretedRunner", "CompiledRunner"), repeat=2):
        for pa, ba, pb, bb in PAIRS:
            if "a.b" in pa:
                continue      # needs declarations; covered in C05 histories
            specs.append(dict(runner_a=ra, prog_a=pa, bind_a=ba, runner_b=rb, prog_b=pb, bind_b=bb,
                              stride=1 if tier == "thorough" else 7, max_points=4000 if tier == "thorough" else 400))
    # environment creation + compilation inside the preempted region as well
    for ra, rb in itertools.product(("InterpretedRunner", "CompiledRunner"), repeat=2):
        specs.append(dict(runner_a=ra, prog_a="x || y", bind_a={"x": True, "y": False}, runner_b=rb, prog_b="y || y",
                          bind_b={"x": True, "y": False}, stride=3 if tier == "thorough" else 41, max_points=3000 if tier == "thorough" else 250,
                          include_setup=True))

    # ... and from the state in which no parser exists yet (first use in a process, or after the documented CEL_PARSER = None reset):
    # both threads then build their parsers concurrently; every line event of the first part of A's setup is a preemption point
    for ra, rb in (("InterpretedRunner", "CompiledRunner"), ("CompiledRunner", "InterpretedRunner"), ("CompiledRunner", "CompiledRunner")):
        specs.append(dict(runner_a=ra, prog_a="x || y", bind_a={"x": True, "y": False}, runner_b=rb, prog_b="y || y", bind_b={"x": True, "y": False},
                          stride=1, max_points=70 if tier == "thorough" else 30, include_setup=True, fresh_parser=True))

    # two preemptions (partially overlapping evaluations); one side is nested to CEL's minimum depth
    deep = "(" * 32 + "x" + ")" * 32
    for ra, rb in itertools.product(("InterpretedRunner", "CompiledRunner"), repeat=2):
        specs.append(dict(mode="two", runner_a=ra, prog_a="x + 1", bind_a={"x": 1}, runner_b=rb, prog_b=deep + " + 1", bind_b={"x": 41},
                          grid=10 if tier == "thorough" else 5))
        specs.append(dict(mode="two", runner_a=ra, prog_a="x || y", bind_a={"x": True, "y": False}, runner_b=rb, prog_b="y || y",
                          bind_b={"x": True, "y": False}, grid=10 if tier == "thorough" else 5))

    def run(spec):
        p = subprocess.run([sys.executable, os.path.join(VERIF, "harness", "interleave.py"), json.dumps(spec)], capture_output=True, text=True)
        try:
            return json.loads(p.stdout.strip().splitlines()[-1])
        except Exception:
            return {"points": 0, "failures": [{"harness-failure": p.stderr[-300:]}]}
    with ThreadPoolExecutor(8) as ex:
        results = list(ex.map(run, specs))
    n = sum(r.get("points", 0) for r in results)
    fails = []
    for spec, r in zip(specs, results):
        for f in r.get("failures", []):
            fails.append(dict(spec, **f))
    rep.bounded.append({"function": "two threads, each with its own environment and program; A suspended at a library line event, B evaluates, A resumes",
                        "cases": n, "distinct_nontrivial": n, "failures": len(fails),
                        "bound": "1 preemption at every (or every 7th) line event of A's evaluation, 3 program pairs x 4 runner-class pairs; preemption during environment creation/compilation; 2 preemptions on a grid (partially overlapping evaluations, one nested 32 deep)"})
    for i, f in enumerate(fails[:5]):
        o = rep.add(V.Obl(f"schedule[{f.get('runner_a')}|{f.get('runner_b')}|{f.get('prog_a')}|k={f.get('preempt_A_at_line_event')}]", "B",
                          "Runner.evaluate", "under this schedule each thread returns what it returns alone"))
        o.status, o.backend = "refuted", "cpython"
        o.detail = "failing input (schedule): " + json.dumps(f)[:500]
        o.replay = {"replayed": True, "confirmed": True, "inputs": f}


def build(rep, tier="quick", seed=0, known=None):
    from props import c05, c14
    cs = environment_contracts() + compile_contracts() + evaluate_no_shared_effects() + c05.frame_contracts() + c14.binding_contracts()
    run_contracts(cs, rep, known=known)
    bounded(rep, tier, seed)
    rep.trusted |= {
        "confinement => serialisability: with every write of a thread's operations confined to objects it created (or to its own "
        "environment/runner), and the only shared effects constant and idempotent, every interleaving is equivalent to a serial "
        "order (argued in DESIGN.md, not mechanised)",
        "lark Lark.parse, logging, re, pendulum's zone cache are re-entrant",
    }
    return {}
