"""C07 - literals denote the values they spell."""
import itertools
import random
import re

import z3

import celpy
import celpy.celtypes as ct
import celpy.evaluation as ev
from pyvc import regexlang as RL
from pyvc import verify as V
from pyvc.source import Sources

LEVEL = "proof"
SIMPLE = {"a": 7, "b": 8, "f": 12, "n": 10, "r": 13, "t": 9, "v": 11, "\\": 92, '"': 34, "'": 39}


def lark_parser():
    celpy.CELParser.CEL_PARSER = None
    celpy.CELParser()
    return celpy.CELParser.CEL_PARSER


class Runners:
    def __init__(self):
        self.envs = {}
        for r in (celpy.InterpretedRunner, celpy.CompiledRunner):
            celpy.CELParser.CEL_PARSER = None
            self.envs[r.__name__] = celpy.Environment(runner_class=r)

    def eval(self, runner, text):
        env = self.envs[runner]
        try:
            return ("value", env.program(env.compile(text)).evaluate({}))
        except ev.CELEvalError:
            return ("error", None)
        except celpy.CELParseError:
            return ("parse-error", None)
        except Exception as ex:
            return ("escaped", type(ex).__name__)


# ------------------------------------------------------------------ G: regular-language obligations
def string_bodies(lark):
    """(terminal, branch index, quote, z3 regex of one body atom) for each string-literal branch of the grammar"""
    out = []
    sc = RL.sre_constants
    for t in lark.terminals:
        if t.name not in ("STRING_LIT", "MLSTRING_LIT"):
            continue
        parsed = RL.sre_parse.parse(t.pattern.to_regexp())
        items = list(parsed)
        while len(items) == 1 and items[0][0] is sc.SUBPATTERN:
            items = list(items[0][1][3])
        branches = items[0][1][1] if len(items) == 1 and items[0][0] is sc.BRANCH else [parsed]
        for bi, br in enumerate(branches):
            reps = [x for x in br if x[0] in (sc.MIN_REPEAT, sc.MAX_REPEAT) and x[1][1] is sc.MAXREPEAT]
            if len(reps) != 1:
                raise RL.RegexUnsupported(f"{t.name} branch {bi}: body not found")
            out.append((t.name, bi, RL.tr(reps[0][1][2])))
    return out


def regex_obligations(rep):
    lark = lark_parser()
    func = "CEL_ESCAPES_PAT vs cel.lark string terminals"
    pat = RL.to_z3(ev.CEL_ESCAPES_PAT)
    for name, bi, atom in string_bodies(lark):
        o = rep.add(V.Obl(f"G:decoder-covers[{name}#{bi}]", "G", func,
                          "every body the lexer accepts is tokenised completely by the escape pattern (finditer skips no character)"))
        st, witness = RL.included(z3.Star(atom), z3.Star(pat))
        o.status, o.backend = st, "z3-regex"
        if st == "refuted":
            o.detail = f"input: body {witness!r}"
            o.model = {"body": witness}
            quote = '"""' if name == "MLSTRING_LIT" else '"'
            lit = quote + witness + quote
            R = Runners()
            got = R.eval("InterpretedRunner", lit)
            o.replay = {"replayed": True, "confirmed": not (got[0] == "value" and str.__eq__(got[1], witness)),
                        "inputs": {"literal": lit}, "observed": repr(got)}
    # every escape alternative of the decoder has a fixed width (\xHH, \uHHHH, \UHHHHHHHH, \ooo, \c)
    for alt, (lo, hi) in RL.alternatives(ev.CEL_ESCAPES_PAT):
        first = list(alt)[0] if len(alt) else None
        if first is None or first[0] is not RL.sre_constants.LITERAL or first[1] != 92:
            continue
        V.table_obl(rep, f"G:fixed-width[{lo},{hi}]", func, "an escape has the width its spelling prescribes", lo == hi,
                    f"input: alternative of width {lo}..{hi}", kind="G")
    widths = sorted({lo for alt, (lo, hi) in RL.alternatives(ev.CEL_ESCAPES_PAT) if len(alt) and list(alt)[0][1] == 92})
    V.table_obl(rep, "G:escape-widths", func, "escape widths are exactly {2 (single char), 4 (\\xHH, \\ooo), 6 (\\uHHHH), 10 (\\UHHHHHHHH)}",
                widths == [2, 4, 6, 10], f"input: widths {widths}", kind="G")


# ------------------------------------------------------------------ reference decoder (written from the statement)
def ref_decode(body, raw, as_bytes):
    """-> list of code points (strings) or byte values (bytes); None when the body has a backslash sequence the statement
    does not define (left unconstrained); 'error' when a defined escape cannot be represented"""
    out = []
    i = 0
    while i < len(body):
        c = body[i]
        if raw or c != "\\":
            out += list(c.encode("utf-8")) if as_bytes else [ord(c)]
            i += 1
            continue
        if i + 1 >= len(body):
            return None
        e = body[i + 1]
        if e in SIMPLE:
            out.append(SIMPLE[e])
            i += 2
        elif e == "x" and re.fullmatch(r"[0-9a-fA-F]{2}", body[i + 2:i + 4]):
            out.append(int(body[i + 2:i + 4], 16))
            i += 4
        elif e == "u" and re.fullmatch(r"[0-9a-fA-F]{4}", body[i + 2:i + 6]):
            v = int(body[i + 2:i + 6], 16)
            if as_bytes:
                return None
            out.append(v)
            i += 6
        elif e == "U" and re.fullmatch(r"[0-9a-fA-F]{8}", body[i + 2:i + 10]):
            v = int(body[i + 2:i + 10], 16)
            if as_bytes:
                return None
            if v > 0x10FFFF:
                return "error"
            out.append(v)
            i += 10
        elif re.fullmatch(r"[0-3][0-7]{2}", body[i + 1:i + 4]):
            out.append(int(body[i + 1:i + 4], 8))
            i += 4
        else:
            return None
    return out


STYLES = [("", '"'), ("", "'"), ("", '"""'), ("", "'''"), ("r", '"'), ("R", "'"), ("r", '"""'), ("r", "'''")]
ALPHABET = ["\\", '"', "'", "n", "x", "u", "U", "0", "1", "7", "8", "a", "\n", "\r", "é", "\U0001f431"]


def lexable(body, raw, quote):
    if len(quote) == 1:
        if "\n" in body:
            return False
        # an unescaped quote ends the literal early
        i = 0
        while i < len(body):
            if body[i] == "\\" and not raw and i + 1 < len(body):
                i += 2
                continue
            if body[i] == quote:
                return False
            i += 1
        return not body.endswith("\\") or (not raw and body.endswith("\\\\") and ref_decode(body, raw, False) is not None)
    return quote not in body and not body.endswith(quote[0]) and not body.endswith("\\")


def decode_cases(tier, rng):
    maxlen = 4 if tier == "thorough" else 3
    bodies = [""]
    for L in range(1, maxlen + 1):
        combos = itertools.product(ALPHABET, repeat=L)
        if L == maxlen:
            combos = (tuple(rng.choice(ALPHABET) for _ in range(L)) for _ in range(6000 if tier == "thorough" else 900))
        bodies += ["".join(c) for c in combos]
    # well-formed escapes followed by characters that could be swallowed
    for esc in ("\\x41", "\\u00e9", "\\U0001F431", "\\101", "\\n", "\\\\"):
        for tail in ("", "0", "a", "F", "41", "\\", "e9", "8", "g"):
            bodies.append(esc + tail)
            bodies.append(tail + esc)
    return bodies


def decoding(rep, tier, seed, known):
    rng = random.Random(seed)
    R = Runners()
    fails = []
    n = 0
    distinct = set()
    for body in decode_cases(tier, rng):
        for prefix, quote in STYLES:
            raw = bool(prefix)
            if not lexable(body, raw, quote):
                continue
            for as_bytes in (False, True):
                want = ref_decode(body, raw, as_bytes)
                if want is None:
                    continue
                lit = ("b" if as_bytes else "") + prefix + quote + body + quote
                for runner in ("InterpretedRunner", "CompiledRunner"):
                    n += 1
                    distinct.add(lit)
                    got = R.eval(runner, lit)
                    if want == "error" or (as_bytes and any(v > 255 for v in want)):
                        ok = got[0] == "error"
                    elif got[0] != "value":
                        ok = False
                    elif as_bytes:
                        ok = type(got[1]) is ct.BytesType and list(bytes(got[1])) == want
                    else:
                        try:
                            expect = "".join(chr(v) for v in want)
                        except ValueError:
                            continue
                        ok = type(got[1]) is ct.StringType and str.__eq__(got[1], expect)
                    if not ok:
                        fails.append({"literal": lit, "runner": runner, "observed": repr(got), "expected": want if want == "error" else (want if as_bytes else "".join(chr(v) for v in want))})
    rep.bounded.append({"function": "celstr / celbytes / Phase1Transpiler.literal against a reference decoder",
                        "cases": n, "distinct_nontrivial": len(distinct), "failures": len(fails),
                        "bound": f"all bodies up to length {3 if tier != 'thorough' else 4} (sampled at the last length) over a 16-symbol adversarial alphabet x 8 quoting styles x string/bytes x 2 runners"})
    return fails


def escape_table(rep):
    """E: every escape of the statement expands to its code point / octet (finite, enumerated)."""
    R = Runners()
    fails = []
    n = 0
    cases = [("\\" + c, v) for c, v in SIMPLE.items()]
    cases += [(f"\\x{v:02x}", v) for v in range(256)] + [(f"\\x{v:02X}", v) for v in (0x0A, 0xAF, 0xFF)]
    cases += [(f"\\{v:03o}", v) for v in range(256)]
    cases += [(f"\\u{v:04x}", v) for v in list(range(0, 0x10000, 251)) + [0xD7FF, 0xE000, 0xFFFF, 0x00E9, 0x270C]]
    cases += [(f"\\U{v:08x}", v) for v in (0, 0x41, 0xFFFF, 0x10000, 0x1F431, 0x10FFFF)]
    for esc, v in cases:
        if 0xD800 <= v <= 0xDFFF:
            continue
        for q in ('"', "'", '"""'):
            if esc in ('\\"', "\\'") and False:
                continue
            lit = q + esc + q
            for runner in ("InterpretedRunner", "CompiledRunner"):
                n += 1
                got = R.eval(runner, lit)
                ok = got[0] == "value" and type(got[1]) is ct.StringType and str.__eq__(got[1], chr(v))
                if not ok:
                    fails.append({"literal": lit, "runner": runner, "observed": repr(got), "expected": chr(v)})
            if v < 256 and not esc.startswith(("\\u", "\\U")):
                lit = "b" + q + esc + q
                for runner in ("InterpretedRunner", "CompiledRunner"):
                    n += 1
                    got = R.eval(runner, lit)
                    ok = got[0] == "value" and type(got[1]) is ct.BytesType and bytes(got[1]) == bytes([v])
                    if not ok:
                        fails.append({"literal": lit, "runner": runner, "observed": repr(got), "expected": bytes([v])})
    # a \U escape that denotes no code point is an evaluation error in both runners (not a value, not another exception)
    for v in (0x110000, 0x7FFFFFFF, 0x80000000, 0xFFFFFFFF):
        for q in ('"', "'"):
            lit = q + f"\\U{v:08X}" + q
            for runner in ("InterpretedRunner", "CompiledRunner"):
                n += 1
                got = R.eval(runner, lit)
                if got[0] != "error":
                    fails.append({"literal": lit, "runner": runner, "observed": repr(got), "expected": "evaluation error"})
    o = V.table_obl(rep, f"E:escape-table[{n} literals]", "celstr / celbytes", "each escape expands to the code point / octet it spells", not fails,
                    "input: " + repr(fails[0])[:300] if fails else f"{n} literals")
    if fails:
        o.replay = {"replayed": True, "confirmed": True, "inputs": fails[0], "more": fails[1:5]}
    return fails


def numbers(rep, tier, seed):
    rng = random.Random(seed)
    R = Runners()
    fails = []
    n = 0
    vals = sorted({0, 1, 7, 8, 9, 10, 255, 2**31, 2**53 + 1, 2**63 - 1, 2**63, 2**64 - 1, 2**64, 12345678901234567890} | {rng.randrange(2**64) for _ in range(40)})
    for v in vals:
        spellings = [(str(v), v), ("00" + str(v), v), (hex(v), v), ("0x" + format(v, "X"), v), ("0x00" + format(v, "x"), v),
                     ("-" + str(v), -v), ("-0x" + format(v, "x"), -v), ("-007" if v == 7 else "-" + str(v), -v)]
        for text, val in spellings:
            for suffix, lo, hi, cls in (("", -(2**63), 2**63, ct.IntType), ("u", 0, 2**64, ct.UintType), ("U", 0, 2**64, ct.UintType)):
                if suffix and text.startswith("-"):
                    continue
                lit = text + suffix
                for runner in ("InterpretedRunner", "CompiledRunner"):
                    n += 1
                    got = R.eval(runner, lit)
                    if lo <= val < hi:
                        ok = got[0] == "value" and type(got[1]) is cls and int(got[1]) == val
                    else:
                        ok = got[0] == "error"
                    if not ok:
                        fails.append({"literal": lit, "runner": runner, "observed": repr(got), "expected": val if lo <= val < hi else "evaluation error"})
    for text in ["1.5", "0.5", ".5", "1.", "1e3", "1E-3", "1.5e+10", "007.5", "-1.5", "-.5e1", "1e308", "1e-320", "123456789.123456789", "0.1", "2.5e-3"]:
        for runner in ("InterpretedRunner", "CompiledRunner"):
            n += 1
            got = R.eval(runner, text)
            ok = got[0] == "value" and type(got[1]) is ct.DoubleType and float(got[1]) == float(text)
            if not ok:
                fails.append({"literal": text, "runner": runner, "observed": repr(got), "expected": float(text)})
    for _ in range(300 if tier == "thorough" else 40):
        x = rng.uniform(-1e6, 1e6) * 10 ** rng.randint(-300, 300)
        text = repr(x) if "e" in repr(x) or "." in repr(x) else repr(x) + ".0"
        if "inf" in text or "nan" in text:
            continue
        for runner in ("InterpretedRunner", "CompiledRunner"):
            n += 1
            got = R.eval(runner, text)
            if not (got[0] == "value" and float(got[1]) == x):
                fails.append({"literal": text, "runner": runner, "observed": repr(got), "expected": x})
    rep.bounded.append({"function": "INT/UINT/FLOAT literal spellings (decimal, hex, sign, leading zeros) under both runners", "cases": n,
                        "distinct_nontrivial": n // 2, "failures": len(fails), "bound": "int64/uint64 boundaries + random values x 8 spellings x {int, u, U}; float spellings"})
    return fails


def encode_literal(s, quote='"'):
    out = []
    for c in s:
        o = ord(c)
        if c == "\\":
            out.append("\\\\")
        elif c == quote:
            out.append("\\" + c)
        elif o < 32 or o == 127:
            out.append(f"\\x{o:02x}")
        else:
            out.append(c)
    return quote + "".join(out) + quote


def round_trip(rep, tier, seed):
    rng = random.Random(seed)
    R = Runners()
    fails = []
    n = 0
    pool = [0x20, 0x22, 0x27, 0x5C, 0x0A, 0x0D, 0x09, 0, 0x7F, 0xE9, 0x270C, 0x1F431, 0xFFFF, 0x10FFFF, 0x41, 0x30]
    for _ in range(2000 if tier == "thorough" else 250):
        s = "".join(chr(rng.choice(pool) if rng.random() < 0.6 else rng.choice([rng.randrange(0x20, 0xD800), rng.randrange(0xE000, 0x110000)]))
                    for _ in range(rng.randint(0, 8)))
        for q in ('"', "'"):
            lit = encode_literal(s, q)
            for runner in ("InterpretedRunner", "CompiledRunner"):
                n += 1
                got = R.eval(runner, lit)
                if not (got[0] == "value" and str.__eq__(got[1], s)):
                    fails.append({"string": s, "literal": lit, "runner": runner, "observed": repr(got)})
        b = bytes(rng.randrange(256) for _ in range(rng.randint(0, 8)))
        lit = 'b"' + "".join(f"\\x{x:02x}" for x in b) + '"'
        for runner in ("InterpretedRunner", "CompiledRunner"):
            n += 1
            got = R.eval(runner, lit)
            if not (got[0] == "value" and bytes(got[1]) == b):
                fails.append({"bytes": b.hex(), "literal": lit, "runner": runner, "observed": repr(got)})
    # unescaped non-ASCII characters in bytes literals contribute their UTF-8 octets (raw and cooked)
    for lit, want in (('b"é"', "é".encode()), ('br"é"', "é".encode()), ("b'''\U0001f431'''", "\U0001f431".encode()), ('Br"aé\\n"', "aé\\n".encode())):
        for runner in ("InterpretedRunner", "CompiledRunner"):
            n += 1
            got = R.eval(runner, lit)
            if not (got[0] == "value" and bytes(got[1]) == want):
                fails.append({"literal": lit, "runner": runner, "observed": repr(got), "expected": want})
    rep.bounded.append({"function": "encode any string / byte string as a literal, evaluate, compare", "cases": n, "distinct_nontrivial": n // 2,
                        "failures": len(fails), "bound": "random Unicode strings and byte strings of length <= 8, two quote styles, both runners"})
    return fails


def build(rep, tier="quick", seed=0, known=None):
    from contracts import literals as LIT
    from pyvc.parallel import run_contracts
    regex_obligations(rep)
    LIT.tokenisation_obligations(rep)
    LIT.independence_obligations(rep, Sources())
    run_contracts(LIT.str_contracts() + LIT.bytes_contracts() + LIT.numeral_contracts(tier), rep, known=known)
    allf = []
    allf += escape_table(rep)
    for part in (decoding(rep, tier, seed, known), numbers(rep, tier, seed), round_trip(rep, tier, seed)):
        allf += part
        seen = set()
        for f in part:
            key = (f.get("literal"), f.get("runner"))
            if key in seen:
                continue
            seen.add(key)
            o = rep.add(V.Obl(f"literal[{f.get('runner')}|{f.get('literal')!r}]", "B", "Evaluator.literal / Phase1Transpiler.literal",
                              "the literal denotes the value it spells"))
            o.status, o.backend = "refuted", "cpython"
            o.detail = "failing input: " + repr(f)[:400]
            o.replay = {"replayed": True, "confirmed": True, "inputs": f}
    rep.trusted |= {"python `re` regular languages as translated by pyvc.regexlang (from the interpreter's own regex parser); z3 regex solver",
                    "repr/eval round trip of str and bytes for the text pasted into generated code"}
    return {}
