"""C18 - policy translation preserves the filter's boolean structure."""
from contracts import xlate_logic as XL
from pyvc.parallel import run_contracts

LEVEL = "proof"


def build(rep, tier="quick", seed=0, known=None):
    run_contracts(XL.contracts(), rep, known=known)
    XL.operand_table(rep)
    XL.composition_table(rep)
    from contracts import xlate_e2e
    xlate_e2e.bounded(rep, tier, seed)
    rep.trusted |= {
        "str.join / f-string semantics over abstract texts as in contracts/xlate_logic.py (validated against the real CEL "
        "parser for every connector x class x class combination)",
        "children counts 1..3 enumerated; for k >= 2 operands the join generates the same per-operand obligation",
        "C7N_Rewriter.operand is used through its contract (validated natively on representative texts of every class)",
    }
    return {}
