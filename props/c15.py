"""C15 - JSON documents convert to CEL values and back without loss (structural induction on the document)."""
import base64
import datetime
import itertools
import json
import random

import z3

import celpy
import celpy.adapter as A
import celpy.celtypes as ct
import celpy.evaluation as ev
from contracts.specs import *
from contracts.evaluator_rules import rule_contract, STUB, TOK
from pyvc import verify as V
from pyvc import symexec as se
from pyvc.parallel import run_contracts
from pyvc.values import VInt, VFloat, VStr, VList, VDict, VObj, VNative, VTuple, NONE

LEVEL = "proof"


class ChildDoc:
    """an arbitrary JSON sub-document (induction hypothesis applies to it)"""


class Image:
    """json_to_cel(child) for an abstract child: a CEL value whose to_python() is (equivalent to) the child"""


def install(run):
    real_j2c = A.json_to_cel
    real_tp = A.CELJSONEncoder.__dict__["to_python"].__func__
    images = run.ghost.setdefault("images", {})

    def j2c(run, document):
        if isinstance(document, VObj) and document.cls is ChildDoc:
            if id(document) not in images:
                images[id(document)] = VObj(Image, {"of": document}, label=f"image({document.label})")
            return images[id(document)]
        return run.call_ast(run.engine.vfunc_of(real_j2c), [document], {})

    def tp(run, cel_object):
        if isinstance(cel_object, VObj) and cel_object.cls is Image:
            return cel_object.attrs["of"]          # IH: to_python(json_to_cel(child)) ~ child
        return run.call_ast(run.engine.vfunc_of(real_tp), [cel_object], {})
    run.engine.overrides[real_j2c] = j2c
    run.engine.overrides[real_tp] = tp


def kids(n):
    return [VObj(ChildDoc, {}, label=f"c{i}") for i in range(n)]


def doc_cases():
    """(label, builder(run) -> (document SV, expectation checker on the converted value, checker on the round trip))"""
    cases = []

    def scalar(label, dom, cel_cls, same):
        def build(run):
            d = dom.make(run, "d")
            return d, (lambda r: same(d, r, cel_cls)), (lambda back: same_native(d, back))
        cases.append((label, build))

    def same_payload(d, r, cls):
        return getattr(r, "cls", None) is cls and r.t == d.t

    def same_native(d, back):
        # what the JSON encoder prints depends on the payload and on bool-vs-number only
        if isinstance(d, VInt) and d.cls is bool:
            return isinstance(back, VInt) and back.cls is bool and back.t == d.t
        if isinstance(d, VInt):
            return isinstance(back, VInt) and back.cls is not bool and not issubclass(back.cls, bool) and back.t == d.t
        return type(back) is type(d) and back.t == d.t
    scalar("bool", V.BoolDom(bool), ct.BoolType, same_payload)
    scalar("int64", V.IntDom(int, I64_MIN, I64_MAX1, "int in int64"), ct.IntType, same_payload)
    scalar("float", V.FloatDom(float), ct.DoubleType, same_payload)
    scalar("str", V.StrDom(str), ct.StringType, same_payload)

    def build_none(run):
        return NONE, (lambda r: r is NONE), (lambda back: back is NONE)
    cases.append(("null", build_none))
    for n in (0, 1, 2, 3):
        for seqcls, tag in ((list, "list"), (tuple, "tuple")):
            def build(run, n=n, seqcls=seqcls):
                ks = kids(n)
                d = VList(list, ks) if seqcls is list else VTuple(ks)
                imgs = run.ghost.setdefault("images", {})

                def conv_ok(r):
                    return (isinstance(r, VList) and r.cls is ct.ListType and len(r.items) == n and
                            all(isinstance(x, VObj) and x.cls is Image and x.attrs["of"] is k for x, k in zip(r.items, ks)))

                def back_ok(back):
                    return isinstance(back, VList) and back.cls is list and len(back.items) == n and all(x is k for x, k in zip(back.items, ks))
                return d, conv_ok, back_ok
            cases.append((f"{tag}[{n}]", build))
    for keys in ([], ["k0"], ["k0", "k1"], ["b", "a"]):
        def build(run, keys=keys):
            ks = kids(len(keys))
            d = VDict(dict, [[VStr(str, k), c] for k, c in zip(keys, ks)])

            def conv_ok(r):
                return (isinstance(r, VDict) and r.cls is ct.MapType and len(r.pairs) == len(keys) and
                        all(isinstance(k, VStr) and k.cls is ct.StringType and se.conc(k) == kk and
                            isinstance(v, VObj) and v.cls is Image and v.attrs["of"] is c
                            for (k, v), kk, c in zip(r.pairs, keys, ks)))

            def back_ok(back):
                return (isinstance(back, VDict) and back.cls is dict and len(back.pairs) == len(keys) and
                        all(isinstance(k, VStr) and se.conc(k) == kk and v is c for (k, v), kk, c in zip(back.pairs, keys, ks)))
            return d, conv_ok, back_ok
        cases.append((f"object{keys}", build))
    return cases


def contracts():
    cs = []
    for label, build in doc_cases():
        def invoke(run, S, build=build):
            install(run)
            d, conv_ok, back_ok = build(run)
            S.conv_ok, S.back_ok = conv_ok, back_ok
            return run.call(VNative(A.json_to_cel), [d])
        cs.append(V.Contract("celpy.adapter:json_to_cel", [], name=f"json_to_cel({label})", invoke=invoke,
                             ret=lambda S, r: S.conv_ok(r), exc={}, cover=False, native=False))

        def invoke_rt(run, S, build=build):
            install(run)
            d, conv_ok, back_ok = build(run)
            S.back_ok = back_ok
            c = run.call(VNative(A.json_to_cel), [d])
            return run.call(VNative(A.CELJSONEncoder.to_python), [c])
        cs.append(V.Contract("celpy.adapter:CELJSONEncoder.to_python", [], name=f"to_python(json_to_cel({label}))",
                             invoke=invoke_rt, ret=lambda S, r: S.back_ok(r), exc={}, cover=False, native=False))
    # integers outside int64 are refused, never wrapped
    big = V.IntDom(int, None, None, "any int")
    cs.append(V.Contract("celpy.adapter:json_to_cel", [("document", big)], name="json_to_cel(int of any size)",
                         ret=lambda S, r: z3.And(in_i64(S.document.t), is_int(r, ct.IntType, S.document.t)),
                         exc={ValueError: lambda S: z3.Not(in_i64(S.document.t))}, cover=False))
    # encode == json encoding of to_python (the super().encode call receives exactly to_python's result)
    # navigation: the converted value indexed along a path reaches the converted sub-document
    for n, i in ((1, 0), (2, 1), (3, 2)):
        def mk_list(run, name, n=n):
            return VList(ct.ListType, [VObj(Image, {}, label=f"img{j}") for j in range(n)])
        cs.append(rule_contract("member_index", ("member_index", [STUB("m"), STUB("i")]),
                                [("m", V.FnDom(mk_list, f"converted list[{n}]")), ("i", V.ConstDom(ct.IntType(i), f"index {i}"))],
                                f"navigation [{i}] into a converted array of {n}", (lambda i: lambda S, r: r is S.m.items[i])(i),
                                cover=False))
        cs[-1].native = False

    def mk_map(run, name):
        return VDict(ct.MapType, [[VStr(ct.StringType, "k0"), VObj(Image, {}, label="v0")],
                                  [VStr(ct.StringType, "k1"), VObj(Image, {}, label="v1")]], {})
    MAPD = V.FnDom(mk_map, "converted object {k0,k1}")
    c = rule_contract("member_index", ("member_index", [STUB("m"), STUB("i")]), [("m", MAPD), ("i", V.ConstDom(ct.StringType("k1"), '"k1"'))],
                      'navigation ["k1"] into a converted object', lambda S, r: r is S.m.pairs[1][1], cover=False)
    c.native = False
    cs.append(c)
    c = rule_contract("member_dot", ("member_dot", [STUB("m"), TOK("IDENT", "k0")]), [("m", MAPD)],
                      "navigation .k0 into a converted object", lambda S, r: r is S.m.pairs[0][1], cover=False)
    c.native = False
    cs.append(c)
    return cs


# ------------------------------------------------------------------ bounded stand-ins: json text level, default(), both runners
def _docs(rng, depth):
    scal = [None, True, False, 0, 1, -1, 2 ** 63 - 1, -(2 ** 63), 1.0, 0.0, -0.0, 1e300, 5e-324, 3.14, "", "a", "é", "\U0001f431", "k\"q", "1"]
    if depth == 0:
        return rng.choice(scal)
    k = rng.random()
    if k < 0.4:
        return rng.choice(scal)
    if k < 0.7:
        return [_docs(rng, depth - 1) for _ in range(rng.randint(0, 3))]
    return {rng.choice(["a", "b", "é", "", "1", "true"]): _docs(rng, depth - 1) for _ in range(rng.randint(0, 3))}


def _same_json(a, b):
    if type(a) is not type(b):
        return False
    if isinstance(a, float):
        return (a == b and str(a) == str(b))
    if isinstance(a, list):
        return len(a) == len(b) and all(_same_json(x, y) for x, y in zip(a, b))
    if isinstance(a, dict):
        return list(a) == list(b) and all(_same_json(a[k], b[k]) for k in a)
    return a == b


def bounded(rep, tier, seed):
    rng = random.Random(seed)
    n = 0
    fails = []
    docs = [_docs(rng, 3) for _ in range(3000 if tier == "thorough" else 400)]
    docs += [True, 1.0, False, 0.0, -0.0, 1, 0, [True, 1.0, 1, False, 0.0, -0.0], {"a": None, "b": [None]}]
    for d in docs:
        n += 1
        text = json.dumps(d)
        cel = json.loads(text, cls=A.CELJSONDecoder)
        back = json.loads(json.dumps(cel, cls=A.CELJSONEncoder))
        if not _same_json(back, json.loads(text)):
            fails.append({"document": text, "round_trip": json.dumps(cel, cls=A.CELJSONEncoder)})
            if len(fails) > 3:
                break
    # navigation under both runners, including null members
    doc = {"owner": None, "tags": [{"Key": "a", "Value": None}, {"Key": "b", "Value": 1}], "spec": {"x": [1, 2.5, "s", True]}}
    doc.update({'5"': 5, "rock'n'": 6, 'mid"dle': 7, "back\\": 8, "": 9, "k": {'in"ner"': 10}})
    paths = [("doc.owner", None), ('doc["owner"]', None), ("doc.tags[0].Value", None), ("doc.tags[1].Value", 1), ("doc.spec.x[1]", 2.5),
             ('doc["spec"]["x"][3]', True), ("doc.spec.x[2]", "s"), ("doc.tags[0].Key", "a"),
             # keys with quote characters at the end / in the middle, a backslash, the empty key
             ('doc["5\\""]', 5), ("doc['rock\\'n\\'']", 6), ('doc["mid\\"dle"]', 7), ('doc["back\\\\"]', 8), ('doc[""]', 9), ('doc["k"]["in\\"ner\\""]', 10),
             ("doc['5\"']", 5), ('doc["rock\'n\'"]', 6)]
    for runner in (celpy.InterpretedRunner, celpy.CompiledRunner):
        celpy.CELParser.CEL_PARSER = None
        env = celpy.Environment(runner_class=runner)
        for path, want in paths:
            n += 1
            try:
                got = env.program(env.compile(path)).evaluate({"doc": A.json_to_cel(doc)})
                ok = _same_json(json.loads(json.dumps(got, cls=A.CELJSONEncoder)), want)
            except Exception as ex:
                got, ok = f"raised {ex!r}"[:200], False
            if not ok:
                fails.append({"runner": runner.__name__, "path": path, "observed": repr(got), "expected": want})
    celpy.CELParser.CEL_PARSER = None
    # timestamps, durations, bytes
    enc = A.CELJSONEncoder()
    for v, want in ((ct.TimestampType("2009-02-13T23:31:30Z"), '"2009-02-13T23:31:30Z"'), (ct.DurationType("90s"), '"90s"'),
                    (ct.BytesType(b"\x00\xffhello"), json.dumps(base64.b64encode(b"\x00\xffhello").decode("ascii"))),
                    (ct.TimestampType("2020-02-29T12:00:00+02:00"), '"2020-02-29T12:00:00+02:00"'),
                    (ct.DurationType("24h"), '"86400s"'), (ct.DurationType("25h"), '"90000s"'), (ct.DurationType("-30s"), '"-30s"'),
                    (ct.DurationType("36h"), '"129600s"'), (ct.DurationType("-48h"), '"-172800s"'), (ct.DurationType("0s"), '"0s"'),
                    (ct.TimestampType("2009-02-13T23:31:30-03:30"), '"2009-02-13T23:31:30-03:30"')):
        n += 1
        got = enc.encode(v)
        if got != want:
            fails.append({"value": repr(v), "observed": got, "expected": want})
    rep.bounded.append({"function": "json text -> CELJSONDecoder -> CELJSONEncoder -> json text; navigation under both runners; default()",
                        "cases": n, "distinct_nontrivial": n, "bound": "random documents of depth <= 3, fixed boundary scalars", "failures": len(fails)})
    if fails:
        o = rep.add(V.Obl("json#bounded", "B", "celpy.adapter", "bounded stand-in: JSON round trip, navigation, special encodings"))
        o.status, o.backend = "refuted", "cpython"
        o.detail = "failing input: " + repr(fails[0])[:500]
        o.replay = {"replayed": True, "confirmed": True, "inputs": fails[0], "more": fails[1:4]}


def build(rep, tier="quick", seed=0, known=None):
    run_contracts(contracts(), rep, known=known)
    bounded(rep, tier, seed)
    rep.trusted |= {
        "json.JSONEncoder prints int/float/str subclasses like their base types; json.JSONDecoder yields bool/int/float/str/None/list/dict",
        "arrays with 0..3 and objects with 0..2 members enumerated: comprehensions map element-wise (uniform in the length)",
        "base64 and str(timestamp)/str(duration) (C10) for default()",
    }
    return {}
