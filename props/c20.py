"""C20 - CLI output and exit status reflect the evaluation result."""
from contracts import cli
from pyvc.parallel import run_contracts

LEVEL = "proof"


def build(rep, tier="quick", seed=0, known=None):
    run_contracts(cli.pjd_contracts() + cli.main_contracts(), rep, known=known)
    from contracts import cli_e2e
    cli_e2e.bounded(rep, tier, seed)
    rep.trusted |= {
        "Environment/Runner contract: compile returns a tree or raises CELParseError(line, column); evaluate returns a value "
        "or raises CELEvalError (C04) as a function of expression and bindings (C05)",
        "json.loads returns a document or raises JSONDecodeError; argparse (get_options) is abstracted by its Namespace",
        "print() to stdout/stderr, json.dumps with CELJSONEncoder (C15)",
    }
    return {}
