"""C13 - results carry their CEL type: type() and API values agree with the language."""
import datetime
import itertools

import z3

import celpy
import celpy.celtypes as ct
import celpy.evaluation as ev
from contracts.specs import *
from pyvc import verify as V
from pyvc import symexec as se
from pyvc.parallel import run_contracts
from pyvc.values import VInt, VFloat, VStr, VBytes, VList, VDict, VNative, VObj, VOpaque, NONE

LEVEL = "proof"

I64 = V.IntDom(ct.IntType, I64_MIN, I64_MAX1, "int")
U64 = V.IntDom(ct.UintType, 0, U64_MAX1, "uint")
DBL = V.FloatDom(ct.DoubleType)
BOOL = V.BoolDom(ct.BoolType)
STR = V.StrDom(ct.StringType)
BYT = V.BytesDom(ct.BytesType)


def _mk_list(n):
    return lambda run, name: VList(ct.ListType, [VInt(ct.IntType, run.fresh_int(f"{name}{i}")) for i in range(n)])


LST = [V.FnDom(_mk_list(0), "list[0]", native=lambda: [ct.ListType([])]),
       V.FnDom(_mk_list(2), "list[2]", native=lambda: [ct.ListType([ct.IntType(1), ct.IntType(2)])])]


def _mk_map(n):
    return lambda run, name: VDict(ct.MapType, [[VStr(ct.StringType, f"k{i}"), VInt(ct.IntType, run.fresh_int(f"{name}{i}"))]
                                                for i in range(n)], {})


MAP = [V.FnDom(_mk_map(0), "map[0]", native=lambda: [ct.MapType({})]),
       V.FnDom(_mk_map(1), "map[1]", native=lambda: [ct.MapType({ct.StringType("k0"): ct.IntType(1)})])]


def exact_class(cls):
    return lambda S, r: (cls is type(None) and r is NONE) or (getattr(r, "cls", None) is cls)


ANY_ERROR = {Exception: lambda S: True}     # which inputs are errors is C01/C09/C10's business; here only returned values


def op_contract(label, fn, doms, cls):
    names = ["a", "b", "c"][:len(doms)]
    return V.Contract("celpy.evaluation:base_functions", list(zip(names, doms)), name=label,
                      invoke=lambda run, S: run.call(VNative(fn), [getattr(S, n) for n in names]),
                      native=lambda N: fn(*[N[n] for n in names]),
                      ret=exact_class(cls), exc=ANY_ERROR, cover=False)


def contracts():
    bf = ev.base_functions
    cs = []
    num = [(I64, ct.IntType, "int"), (U64, ct.UintType, "uint")]
    for dom, cls, tag in num:
        for op in ("_+_", "_-_", "_*_", "_/_", "_%_"):
            cs.append(op_contract(f"type({tag} {op} {tag}) == {tag}", bf[op], [dom, dom], cls))
    for op in ("_+_", "_-_", "_*_", "_/_"):
        cs.append(op_contract(f"type(double {op} double) == double", bf[op], [DBL, DBL], ct.DoubleType))
    cs.append(op_contract("type(-int) == int", bf["-_"], [I64], ct.IntType))
    cs.append(op_contract("type(-double) == double", bf["-_"], [DBL], ct.DoubleType))
    cs.append(op_contract("type(string + string) == string", bf["_+_"], [STR, STR], ct.StringType))
    cs.append(op_contract("type(bytes + bytes) == bytes", bf["_+_"], [BYT, BYT], ct.BytesType))
    cs.append(op_contract("type(list + list) == list", bf["_+_"], [LST, LST], ct.ListType))
    ordered = [(I64, "int"), (U64, "uint"), (DBL, "double"), (BOOL, "bool"), (STR, "string")]
    for dom, tag in ordered:
        for op in ("_<_", "_<=_", "_>_", "_>=_", "_==_", "_!=_"):
            cs.append(op_contract(f"type({tag} {op} {tag}) == bool", bf[op], [dom, dom], ct.BoolType))
    for op in ("_==_", "_!=_"):
        cs.append(op_contract(f"type(bytes {op} bytes) == bool", bf[op], [BYT, BYT], ct.BoolType))
        cs.append(op_contract(f"type(list {op} list) == bool", bf[op], [LST, LST], ct.BoolType))
        cs.append(op_contract(f"type(map {op} map) == bool", bf[op], [MAP, MAP], ct.BoolType))
    cs.append(op_contract("type(int in list) == bool", bf["_in_"], [I64, LST], ct.BoolType))
    cs.append(op_contract("type(string in map) == bool", bf["_in_"], [STR, MAP], ct.BoolType))
    cs.append(op_contract("type(!bool) == bool", bf["!_"], [BOOL], ct.BoolType))
    cs.append(op_contract("type(bool && bool) == bool", bf["_&&_"], [BOOL, BOOL], ct.BoolType))
    cs.append(op_contract("type(bool || bool) == bool", bf["_||_"], [BOOL, BOOL], ct.BoolType))
    for dom, tag in ((STR, "string"), (BYT, "bytes")):
        cs.append(op_contract(f"type(size({tag})) == int", bf["size"], [dom], ct.IntType))
    cs.append(op_contract("type(size(list)) == int", bf["size"], [LST], ct.IntType))
    cs.append(op_contract("type(size(map)) == int", bf["size"], [MAP], ct.IntType))
    for f in ("contains", "startsWith", "endsWith"):
        cs.append(op_contract(f"type(string.{f}(string)) == bool", bf[f], [STR, STR], ct.BoolType))
    cs.append(op_contract("type(list.contains(int)) == bool", bf["contains"], [LST, I64], ct.BoolType))
    # conversions
    conv = {
        "int": (ct.IntType, [I64, U64, DBL]), "uint": (ct.UintType, [I64, U64, DBL]),
        "double": (ct.DoubleType, [I64, U64, DBL]), "bool": (ct.BoolType, [BOOL]),
        "string": (ct.StringType, [STR, I64, U64, BOOL]), "bytes": (ct.BytesType, [BYT]),
    }
    for name, (cls, doms) in conv.items():
        for d in doms:
            cs.append(op_contract(f"type({name}({d.label})) == {name}", bf[name], [d], cls))
    # ?: and index return the very object selected
    cs.append(V.Contract("celpy.celtypes:logical_condition", [("e", BOOL), ("x", [I64, STR, DBL]), ("y", [I64, STR, DBL])],
                         name="type(c ? x : y) is the type of the selected branch",
                         ret=lambda S, r: z3.If(S.e.t != 0, z3.BoolVal(r is S.x), z3.BoolVal(r is S.y)), exc={}, cover=False))
    return cs


def type_name_table(rep):
    """`type(e) == T` is true for exactly the matching name (finite table, decided by running the real TypeType and
    bool_eq on one representative instance per class - the outcome depends on the class only)."""
    names = ["int", "uint", "double", "bool", "string", "bytes", "list", "map", "null_type", "timestamp", "duration", "type"]
    reps = {
        "int": ct.IntType(1), "uint": ct.UintType(1), "double": ct.DoubleType(1.5), "bool": ct.BoolType(True),
        "string": ct.StringType("s"), "bytes": ct.BytesType(b"b"), "list": ct.ListType([ct.IntType(1)]),
        "map": ct.MapType({ct.StringType("k"): ct.IntType(1)}), "null_type": None,
        "timestamp": ct.TimestampType("2009-02-13T23:31:30Z"), "duration": ct.DurationType("1s"),
        "type": ct.IntType,
    }
    tt = ev.base_functions["type"]
    eq = ev.base_functions["_==_"]
    for vn, v in reps.items():
        for tn in names:
            try:
                got = eq(tt(v), ev.base_functions[tn])
                ok = isinstance(got, ct.BoolType) and bool(got) == (vn == tn)
                detail = f"type({vn} value) == {tn} -> {got!r}"
            except Exception as ex:
                ok, detail = False, f"type({vn} value) == {tn} raised {ex!r}"
            o = V.table_obl(rep, f"type-name[{vn},{tn}]", "TypeType/base_functions",
                            f"type(<{vn}>) == {tn} is {vn == tn}", ok, "input: " + detail)
            if not ok:
                o.replay = {"replayed": True, "confirmed": True, "inputs": {"value": repr(v), "name": tn}, "observed": detail}


def time_rows(rep):
    """Rows over timestamp/duration: decided by running the real operators on representative instances (the class of
    the result of datetime/timedelta arithmetic does not depend on the payload) - a bounded stand-in, labelled B."""
    t1, t2 = ct.TimestampType("2009-02-13T23:31:30Z"), ct.TimestampType("2019-02-13T23:31:30+02:00")
    d1, d2 = ct.DurationType("1h30m"), ct.DurationType("-90s")
    bf = ev.base_functions
    rows = [("timestamp + duration", bf["_+_"], (t1, d1), ct.TimestampType), ("duration + timestamp", bf["_+_"], (d1, t1), ct.TimestampType),
            ("duration + duration", bf["_+_"], (d1, d2), ct.DurationType), ("timestamp - timestamp", bf["_-_"], (t1, t2), ct.DurationType),
            ("timestamp - duration", bf["_-_"], (t1, d1), ct.TimestampType), ("duration - duration", bf["_-_"], (d1, d2), ct.DurationType),
            ("-duration", bf["-_"], (d1,), ct.DurationType),
            ("timestamp(string)", bf["timestamp"], (ct.StringType("2009-02-13T23:31:30Z"),), ct.TimestampType),
            ("duration(string)", bf["duration"], (ct.StringType("90s"),), ct.DurationType),
            ("string(timestamp)", bf["string"], (t1,), ct.StringType), ("string(duration)", bf["string"], (d1,), ct.StringType),
            ("int(timestamp)", bf["int"], (t1,), ct.IntType)]
    for g in ("getDate", "getDayOfMonth", "getDayOfWeek", "getDayOfYear", "getFullYear", "getMonth", "getHours",
              "getMilliseconds", "getMinutes", "getSeconds"):
        rows.append((f"timestamp.{g}()", bf[g], (t1,), ct.IntType))
    for g in ("getHours", "getMilliseconds", "getMinutes", "getSeconds"):
        rows.append((f"duration.{g}()", bf[g], (d1,), ct.IntType))
    for op in ("_<_", "_<=_", "_>_", "_>=_", "_==_", "_!=_"):
        rows.append((f"timestamp {op} timestamp", bf[op], (t1, t2), ct.BoolType))
        rows.append((f"duration {op} duration", bf[op], (d1, d2), ct.BoolType))
    n = 0
    for label, fn, args, cls in rows:
        n += 1
        try:
            got = fn(*args)
            ok = type(got) is cls
            detail = f"{label} -> {type(got).__name__}"
        except Exception as ex:
            ok, detail = False, f"{label} raised {ex!r}"
        o = V.table_obl(rep, f"time-row[{label}]", "celtypes time arithmetic", f"class of {label} is {cls.__name__}", ok,
                        "input: " + detail, kind="B")
        if not ok:
            o.replay = {"replayed": True, "confirmed": True, "inputs": {"args": [repr(a) for a in args]}, "observed": detail}
    rep.bounded.append({"function": "time rows of the result-type table", "bound": "one representative instance per row",
                        "cases": n, "distinct_nontrivial": n})


def bool_constructs(rep, known):
    """`has()`, `in`, the string predicates and the boolean macros yield the CEL bool type - through both runners (finite
    table of constructs x representative operands; the class of the result does not depend on the payload)."""
    import celpy
    listed = {k["id"]: k for k in (known or [])}
    act = {"m": ct.MapType({ct.StringType("k"): ct.IntType(1)}), "l": ct.ListType([ct.IntType(1), ct.IntType(2)]), "s": ct.StringType("abc")}
    exprs = ["has(m.k)", "has(m.z)", "1 in l", "3 in l", '"k" in m', "l.all(x, x > 0)", "l.exists(x, x > 1)", "l.exists_one(x, x > 1)", 's.contains("b")', 's.startsWith("a")',
             's.endsWith("z")', 's.matches("a.c")', "!has(m.z)", "has(m.k) && true", "has(m.k) || has(m.z)", "has(m.k) ? 1 : 2", "[has(m.k)]", "type(has(m.k)) == bool"]
    envs = {}
    for rn, runner in (("interpreted", celpy.InterpretedRunner), ("compiled", celpy.CompiledRunner)):
        celpy.CELParser.CEL_PARSER = None
        envs[rn] = celpy.Environment(runner_class=runner)
    # macro results over lists AND maps have the macro's result type, whatever the elements do
    typed = [('{"a": 1, "b": 2}.filter(k, k != "z")', ct.ListType), ("{}.filter(k, true)", ct.ListType), ("l.filter(x, true)", ct.ListType), ("l.filter(x, false)", ct.ListType),
             ('{"a": 1}.map(k, k)', ct.ListType), ("l.map(x, x)", ct.ListType), ("[].map(x, x)", ct.ListType), ('{"a": 1}.all(k, true)', ct.BoolType),
             ('{"a": 1}.exists_one(k, true)', ct.BoolType), ('type({"a": 1}.filter(k, true)) == list', ct.BoolType), ("type(l.filter(x, true)) == list", ct.BoolType),
             ("type(null) == null_type", ct.BoolType), ("type([null][0]) == null_type", ct.BoolType),
             # type names used as VALUES (not called): every name denotes its type object, `type` included
             ("type(type(1)) == type", ct.BoolType), ("type(int) == type", ct.BoolType), ("type(1) == int", ct.BoolType), ("[int, string][0] == int", ct.BoolType),
             ("type(type) == type", ct.BoolType), ('type("a") == string', ct.BoolType), ("type(1u) == uint", ct.BoolType), ("type(1.5) == double", ct.BoolType),
             ("type(true) == bool", ct.BoolType), ('type(b"a") == bytes', ct.BoolType), ("type([1]) == list", ct.BoolType), ('type({"a": 1}) == map', ct.BoolType),
             ('type(timestamp("2020-01-01T00:00:00Z")) == timestamp', ct.BoolType), ('type(duration("1s")) == duration', ct.BoolType),
             ('type(timestamp("2020-01-02T00:00:00Z") - timestamp("2020-01-01T00:00:00Z")) == duration', ct.BoolType)]
    for rn, env in envs.items():
        for text, want in typed:
            try:
                v = env.program(env.compile(text)).evaluate(dict(act))
                ok, obs = type(v) is want and (" == " not in text or bool(v)), f"{type(v).__name__} {v!r}"
            except Exception as ex:
                ok, obs = False, f"{type(ex).__name__}: {str(ex)[:80]}"
            o = V.table_obl(rep, f"result-type[{rn}:{text}]", f"celpy.{'InterpretedRunner' if rn == 'interpreted' else 'CompiledRunner'}",
                            f"the value is an instance of celtypes.{want.__name__}", ok, f"input: {text!r} -> {obs}", kind="B")
            if not ok:
                o.replay = {"replayed": True, "confirmed": True, "inputs": {"text": text, "runner": rn}, "observed": obs}
    for rn, env in envs.items():
        for text in exprs:
            try:
                v = env.program(env.compile(text)).evaluate(dict(act))
                if isinstance(v, list):
                    v = v[0]
                want = ct.IntType if "?" in text else ct.BoolType
                ok, obs = type(v) is want, f"{type(v).__name__} {v!r}"
                if text.startswith("type("):
                    ok = ok and bool(v)
            except Exception as ex:
                ok, obs = False, f"{type(ex).__name__}: {str(ex)[:80]}"
            o = V.table_obl(rep, f"bool-construct[{rn}:{text}]", f"celpy.{'InterpretedRunner' if rn == 'interpreted' else 'CompiledRunner'}",
                            "a relation / has() / in / string predicate / boolean macro yields celtypes.BoolType", ok, f"input: {text!r} -> {obs}", kind="B")
            if not ok:
                o.replay = {"replayed": True, "confirmed": True, "inputs": {"text": text, "runner": rn}, "observed": obs}
                if "has(" in text and rn == "compiled" and "C13-has-python-bool" in listed:
                    o.finding_id = "C13-has-python-bool"


def build(rep, tier="quick", seed=0, known=None):
    bool_constructs(rep, known)
    from contracts import c13_rules
    cs = contracts() + c13_rules.contracts()
    run_contracts(cs, rep, known=known)
    type_name_table(rep)
    time_rows(rep)
    rep.trusted |= {
        "a builtin numeric/sequence operator applied to subclass instances returns the exact base type (pyvc.models)",
        "time rows: class of datetime/timedelta results does not depend on the payload (checked on representatives only)",
        "z3 5.1.0 and the pyvc VC generator are sound",
    }
    return {}
