# one entry per property: check(...) for claimed ones, NA[...] = reason otherwise
check("C01", "proof",
      "Every path of the int64/uint64/double operator dunders, their range-checking wrappers and constructors is "
      "executed symbolically from the AST of the real source over all operand values; each path's postcondition "
      "(exact result iff in range, error otherwise; IEEE-754 for doubles) is discharged by z3 for all inputs at once.",
      "CPython semantics as modelled in pyvc/models.py (exact ints, IEEE doubles, operator dispatch), z3, the VC generator; "
      "each path is cross-checked against CPython on one model.",
      "contract-based deductive verification: symbolic execution of real AST + z3", "DESIGN.md 4/C01")
check("C02", "proof",
      "logical_and/or/not/condition, the Evaluator rules conditionalor/conditionaland/expr/unary(!) on mock nodes with "
      "arbitrary child outcomes, and the code the compiled runner emits for the same rules (obtained by running the real "
      "transpiler on a mock node, then executed symbolically inside result()) are checked against the outcome-class "
      "tables of the statement for every combination of operand classes {bool, error, non-bool values, raising "
      "sub-expression}; laziness of ?: via a ghost visit log; commutativity of the tables as lemmas.",
      "Operand classes are enumerated over a finite universe (BoolType, CELEvalError, IntType, StringType, None, ListType, "
      "DoubleType; raising sub-expressions over result()'s exception tuple); CPython semantics as modelled; every path "
      "cross-checked against CPython. all()/exists() fold lemma: see evidence (added in a later revision).",
      "contract-based deductive verification: symbolic execution of real AST and of the emitted code + z3", "DESIGN.md 4/C02")
check("C13", "proof",
      "For every row of the result-type table (operators, functions, conversions over int/uint/double/bool/string/bytes/"
      "list/map) the real base_functions entry is executed symbolically on operands of the row's classes with arbitrary "
      "payloads; on every returning path the class of the result must be exactly the library class of the row's type. "
      "`type(e) == T` is an exhaustive 12x12 table. Rows over timestamp/duration are run on representative instances "
      "(bounded, labelled).",
      "Finite class universe; builtin operators on subclass instances return the base type (pyvc.models, cross-checked "
      "against CPython); time rows are a bounded stand-in; macro result classes are covered by C02/C09 contracts; a finite table runs "
      "has(), in, the string predicates and the boolean macros through both runners (recorded finding: the compiled has() is a Python bool).",
      "contract-based deductive verification (class postcondition on every path) + exhaustive finite table", "DESIGN.md 4/C13")
check("C18", "proof",
      "logical_connector is executed symbolically for every node kind (not/or/and/list with 1-3 abstract children, "
      "primitive) at an arbitrary nesting level under ghost precedence typing: every text carries (loosest top-level "
      "operator class, boolean denotation); each &&/|| join generates the obligation that its operands bind at least as "
      "tightly; clause translations and recursive results have an ARBITRARY class; the result's denotation must equal "
      "the Custodian combinator. The typing rules and C7N_Rewriter.operand are validated against the library's own "
      "parser for every connector x class x class combination.",
      "str.join / f-string semantics over abstract texts (contracts/xlate_logic.py); children counts 1..3; operand() used "
      "through its contract, validated on representative texts per class; plus an end-to-end bounded stand-in "
      "(translate, parse, evaluate under all assignments).",
      "contract-based deductive verification with ghost state (precedence typing) + exhaustive finite tables", "DESIGN.md 4/C18")
check("C08", "proof",
      "bool_lt..bool_ne (boolean() around operator.*, through type_matched and the class dunders) are executed "
      "symbolically for same-class int/uint/double(no NaN)/bool/string/bytes operands: the result is BoolType of the "
      "builtin payload order; the payload orders are shown coherent as z3 lemmas (reflexive, symmetric, != negates ==, "
      "strict total order, converse, <= is < or ==, trichotomy). ListType.__eq__/__ne__ are proved for lists of unknown "
      "length by an inductive fold invariant with element equality an arbitrary boolean per pair; MapType.__eq__/__ne__ "
      "for every key-set shape over three keys with arbitrary values.",
      "timestamps, durations, bytes ordering and nesting are a bounded stand-in on boundary values; element-equality "
      "abstraction assumes same-typed elements (the property's precondition).",
      "contract-based deductive verification: symbolic execution + z3 lemmas + inductive fold invariant", "DESIGN.md 4/C08")
check("C19", "proof",
      "Finite tables extracted from the source are decided exhaustively: every atomic_op_map entry parses and, through the "
      "real type_value_rewrite, decides like the relation its op names on resources on both sides of each boundary "
      "(oracle: the relation applied directly); every (rewriter, resource type) table entry found in the AST is pushed "
      "through its real rewriter and the emitted text parsed with the library's parser; value_type transforms, boolean "
      "literals, dotted / tag: / length() keys are checked the same way. Quoting (q -> CEL literal -> evaluate) and the "
      "duration literals are bounded stand-ins (adversarial alphabet up to length 3-4; second counts sweep).",
      "Exhaustive over the tables as they are in the working tree; operand values are representatives on both sides of each "
      "boundary; quoting and durations are bounded (labelled); five recorded known findings (glacier entry, "
      "present/absent on a missing key).",
      "exhaustive finite-table obligations decided by the library's own parser/evaluator + bounded stand-ins "
      "(contract-based deduction is not applicable to the replace_all/regex decode chain: see DESIGN.md)", "DESIGN.md 4/C19")
check("C20", "proof",
      "main() and process_json_doc() are executed symbolically from their AST with Environment/Runner, json.loads and "
      "stdin abstracted by contracts: every path's status and output log is checked against the status table (-n: "
      "0 with the JSON of the value; -n -b: 0/1/2; syntax error: 1 with a located message; per document 0/1/3, error -> "
      "null). The NDJSON loop is proved for streams of unknown length with the invariant `summary == max of the statuses so "
      "far`, havocking the shared activation, with the frame obligation that evaluation k sees document k and the --arg "
      "bindings only.",
      "Runner.evaluate returns a value or raises CELEvalError (C04) and is a function of its bindings (C05); argparse is "
      "abstracted by the Namespace it returns; json.dumps/print are logged, not interpreted; plus a bounded end-to-end "
      "stand-in of the real main() on concrete streams.",
      "contract-based deductive verification: symbolic execution with collaborator contracts + loop invariant", "DESIGN.md 4/C20")
check("C15", "proof",
      "Structural induction on the JSON document: json_to_cel and CELJSONEncoder.to_python are executed symbolically for "
      "every JSON kind at the root (bool, int64, float, string with arbitrary payloads; null; arrays of 0-3 and objects of "
      "0-2 abstract children) with the recursive calls on children replaced by the induction hypothesis; postconditions: "
      "the CEL class and payload per kind (bool never becomes int), element/key order and identity, and "
      "to_python(json_to_cel(d)) ~ d; ints outside int64 raise. Navigation (.field, [\"key\"], [i]) on converted values "
      "through the real Evaluator.member_dot/member_index reaches the converted sub-document.",
      "json module behaviour for int/float/str subclasses, comprehension uniformity in the length; text-level round trip, "
      "navigation under both runners and timestamp/duration/bytes encodings are a bounded stand-in.",
      "contract-based deductive verification: structural induction via the function's own contract on sub-documents", "DESIGN.md 4/C15")
check("C17", "proof",
      "intersect/difference/unique_size are executed on lists of unknown length (z3 sequences, builtin set algebra as "
      "membership predicates): result iff a common element exists / iff some element of the left is missing on the right / "
      "the number of distinct elements; normalize and glob compose lower/strip and fnmatch in the stated order; key() over "
      "0-3 tags with arbitrary names returns the Value of the FIRST match or null; arn_split over 0-8 fields x every field "
      "name (named field for 5/6 fields, error otherwise); IPv4Network.__contains__ dispatch (None / network / address); "
      "C7N_Interpreted_Runner.evaluate: the module-global context is the filter during the evaluation and None after normal "
      "and exceptional exit (module-global writes tracked per path).",
      "builtin set/str/fnmatch/ipaddress/packaging semantics are uninterpreted or structural models (oracle relations); "
      "CIDR containment on a 32-address universe, versions, marked_key and CEL-level calls are a bounded stand-in.",
      "contract-based deductive verification relative to library contracts + bounded sweeps for the libraries", "DESIGN.md 4/C17")
check("C09", "proof",
      "Index: Evaluator.member_index on a list of UNKNOWN length and any int64 index returns the element at that position "
      "iff 0 <= i < size, an error otherwise (negative included); non-int index is an error. operator_in over a list of "
      "unknown length with a loop invariant and element comparisons that may be true, false or raise: true iff some "
      "comparison is true, else error iff some raised, else false (the `exists` reading). size/startsWith/endsWith/"
      "contains/concatenation over symbolic strings (size in code points; (s+t).startsWith(s) composed through the two real "
      "functions). Map literals: duplicate keys an error; lookup present/missing; has(). map/filter/exists_one for the "
      "interpreter branches and for macro_map/macro_filter/macro_exists_one over receivers of unknown length: same size, "
      "element i is the body with the variable bound to l[i]; kept exactly when the predicate is true, the element itself "
      "appended; exactly-one by a counting invariant; body errors are returned, never raised past the rule.",
      "RE2 semantics trusted (valid/invalid outcome abstracted); builtin map/filter/list()/sum semantics; element "
      "abstraction; a reference-evaluator bounded stand-in under both runners.",
      "contract-based deductive verification: symbolic sequences, fold and loop invariants + z3", "DESIGN.md 4/C09")
check("C10", "proof",
      "The conversion entries of base_functions are executed symbolically: int(uint)/uint(int) exact iff in range; "
      "int(double)/uint(double) truncate toward zero (characterised by the defining inequalities over the reals) and are "
      "errors exactly when the truncated value does not fit, NaN and infinities included; int(string(i)) == i, "
      "uint(string(u)) == u, double(string(d)) == d, string(bytes(s)) == s as compositions of the real constructors; "
      "arbitrary bytes -> string or an error; unparsable text -> error; function_eval turns every raised "
      "ValueError/TypeError/OverflowError/UnicodeDecodeError/AttributeError into an error value.",
      "Trusted CPython facts entered as assumptions: str(int) is -?[0-9]+ with int(str(n)) == n, float(repr(x)) == x, "
      "UTF-8 decode inverts encode; timestamp/duration text round trips (strftime, pendulum, float seconds) and the "
      "compiled runner are a bounded stand-in (years 1-9999, range ends).",
      "contract-based deductive verification: symbolic execution + z3 (Real abstraction for double->int)", "DESIGN.md 4/C10")
check("C11", "proof",
      "Repository glue relative to datetime: each of the ten get* accessors (with and without a zone argument) is "
      "executed symbolically with datetime's astimezone / fields / toordinal / isoweekday as uninterpreted functions: it "
      "must pass the caller's zone to tz_parse and return IntType of month-1, day, day-1, ordinal-ordinal(Jan 1), "
      "isoweekday mod 7, hour, minute, second, microsecond div 1000; tz_parse dispatch (none -> UTC, IANA name, otherwise "
      "the +-HH:MM parser); timestamp +/- re-wraps the superclass result field by field including tzinfo, passes "
      "NotImplemented through, turns a timedelta into a range-checked Duration; OverflowError/ValueError from time "
      "arithmetic become error values in addition(). tz_offset_parse is decided on EVERY string of its (finite) language.",
      "datetime/timedelta/pendulum are dependencies (exact integer-microsecond Gregorian arithmetic assumed); the calendar "
      "itself, the arithmetic laws and the duration text grammar (float fsum) are a bounded sweep against an independent "
      "proleptic Gregorian computation.",
      "contract-based deductive verification relative to library contracts + exhaustive finite table + bounded calendar sweep", "DESIGN.md 4/C11")
check("C12", "proof",
      "NameContainer.resolve_name is executed symbolically for packages of 0-2 components and parent chains of 1-3 "
      "containers with find_name abstracted (an arbitrary found/not-found outcome per container and path): the result is "
      "the match at the longest package prefix that matches anywhere in the chain, the local-most container winning (this "
      "is also what makes a macro variable shadow an outer one), KeyError iff nothing matches; Activation.resolve_variable "
      "passes the package, prefers the value over the annotation and falls back to functions. The trie (load_annotations, "
      "load_values, find_name, dict_find_name, member_dot) is decided by an exhaustive enumeration over the a.b.c alphabet: "
      "every assignment {absent, variable, map} to the prefixes x package levels x references, both runners, against the "
      "specification resolver; plus nested/colliding macro programs.",
      "find_name abstraction in the proof; the enumeration is exhaustive only for the three-component alphabet; one recorded "
      "known finding (a bound name that is also a prefix of longer bindings evaluates to the internal NameContainer).",
      "contract-based deductive verification (loop unrolled over concrete package/chain shapes, symbolic outcomes) + exhaustive small-alphabet enumeration", "DESIGN.md 4/C12")
check("C14", "proof",
      "function_eval / method_eval are executed symbolically with an arbitrary host callable that logs its calls: for 0-3 "
      "arguments, in both forms, the callable is invoked exactly once with the evaluated arguments (the receiver first for "
      "the method form); a returned CELEvalError is the outcome, a raised ValueError/TypeError becomes an error value, an "
      "error argument is the outcome without a call, an unbound name is an error. Activation.__init__ for both supplying "
      "styles binds by name in front of the built-ins while the shared base_functions dict is never written (heap-write "
      "log over the real ChainMap source). The compiled call templates (emitted by the real transpiler for a lambda-bound "
      "function, then executed symbolically) make exactly one call with the evaluated holes; a failing program construction "
      "is a refuted obligation.",
      "host callables are abstract (value / returned error / raised ValueError or TypeError); every kind of Python callable x "
      "supplying style x call shape x both runners and the once-per-call-site counts are a bounded stand-in.",
      "contract-based deductive verification with a ghost call log + frame (heap-write) obligation", "DESIGN.md 4/C14")
check("C05", "proof",
      "Footprint (frame) obligations from symbolic execution with a heap-write log: Activation.clone() yields a copy none of "
      "whose containers/referents is an object of the base (deep ownership); clone()+load_values() for plain, dotted and new "
      "dotted names leaves every object of the base and the caller's bindings untouched; InterpretedRunner.evaluate and "
      "Transpiler.evaluate (the generated statements of a real transpiled program run through an exec() model) write only "
      "to objects created during the call or to the transpiler's own write-before-read field - no store into a shared "
      "namespace, module global or the runner; Activation.__init__ never writes base_functions. With every operation's "
      "write set disjoint from every other's read set, each evaluation of a history equals the evaluation alone.",
      "lark's parser is stateless between parses; the disjointness lemma is argued in DESIGN.md, not mechanised; histories of "
      "API operations (length 2-4, both runner classes, dotted names, host functions), each run in a fresh interpreter and "
      "compared with the evaluation alone in a fresh interpreter, are a bounded stand-in that also replays refutations.",
      "contract-based deductive verification: frame/ownership obligations over a logged heap + bounded history replay", "DESIGN.md 4/C05")
check("C16", "proof",
      "Contracts cannot quantify over interleavings; they establish the sufficient condition under the documented contract "
      "(one Environment per thread): thread confinement. Frame obligations from symbolic execution with a heap-write log: "
      "Environment.__init__ (both runner classes) has only constant, idempotent process-shared effects (recursion limit := "
      "2500, parser cached for the runner's tree class); Environment.compile parses its own text and writes no class- or "
      "module-level state; InterpretedRunner.evaluate / Transpiler.evaluate write only to objects created during the call "
      "(or the transpiler's write-before-read field), touch no module global, shared namespace, class attribute or the "
      "recursion limit; Activation never writes base_functions; clone() gives deep ownership.",
      "confinement => serialisability is argued in DESIGN.md, not mechanised; lark parse, logging, re, pendulum zone cache "
      "assumed re-entrant; a deterministic schedule exploration (1 preemption at every library line event; 2 preemptions on a "
      "grid; preemption during environment creation) is the bounded stand-in that replays refutations.",
      "contract-based deductive verification of a sufficient condition (thread confinement via frame obligations) + bounded schedule replay", "DESIGN.md 4/C16")
check("C07", "proof",
      "celstr() and celbytes() are executed symbolically from their real source on a token  <prefix><quote> m1 m2 <quote>  "
      "where m1, m2 are ARBITRARY members of two escape kinds of the statement (single-character escapes, \\xHH, \\uHHHH, "
      "\\UHHHHHHHH, \\ooo, any other character; all pairings, all 8 string and 8 bytes quoting styles incl. raw): on every path the "
      "result is value(m1) ++ value(m2) with the values written from the statement (hex/octal digit arithmetic over symbolic "
      "digits, chr, UTF-8 octets), an unrepresentable escape raises only ValueError/OverflowError, the slices handed to "
      "finditer are exactly the body (z3 strings), and the decoding loops carry no state between matches (AST dataflow), so the "
      "pairwise result extends to bodies of any length. finditer's contract is justified by regular-language obligations on the "
      "real CEL_ESCAPES_PAT (each kind is contained in an alternative of its width and no earlier alternative matches where such "
      "an escape starts). For every string-literal branch of cel.lark every lexable body is tokenised completely (z3 regex); "
      "every escape alternative has its fixed width. The escape table of the statement is additionally enumerated through both runners.",
      "z3's character sort ends at U+2FFFF: chr above it and str.encode('utf-8') are uninterpreted function symbols shared by code "
      "and specification; int(text, base) is exact for ASCII-alphanumeric texts of determined length; re alternation is "
      "leftmost-first; str.join / bytes(iterable) concatenate. Bounded stand-ins (not counted): numeric spellings (decimal/hex/"
      "sign/leading zeros, int64/uint64 boundaries, floats) through both runners, the reference-decoder differential (bodies up "
      "to length 3-4 over a 16-symbol adversarial alphabet x 8 styles x 2 runners) and the encode->evaluate round trip; "
      "Phase1Transpiler.literal's pasted text is covered by those sweeps and by C03's simulation contracts.",
      "contract-based deductive verification: symbolic execution of the real celstr/celbytes AST over symbolic escape atoms (z3 strings/ints) "
      "+ regular-language obligations (z3 regex) + loop-independence dataflow; bounded differential for numeric spellings", "DESIGN.md 4/C07, 9.9")
check("C06", "proof",
      "Grammar half, decided on the real cel.lark as compiled by lark on every run: the strict LALR(1) analysis reports no "
      "conflict; with helper non-terminals inlined the production set equals, production by production, a canonical "
      "stratified grammar written from the statement's precedence table (contracts/canonical_cel_rules.lark); %ignore is "
      "exactly whitespace and // comments (z3 regex language equality); in all 145 parser states the words true/false/null "
      "lex as literals. Dump half: every DumpAST method is executed symbolically from the real source for every production "
      "(arity 1-3 of the variadic ones) against the unparse contract stack' == P + [yield of the production with the "
      "children's texts], cross-checked per path against CPython; every adjacency the methods write without whitespace is a "
      "z3 regular-language obligation (no terminal matches across the boundary).",
      "the parser differential against a reference precedence-climbing parser (all operator pairs, triples sampled/all) "
      "and the dump->parse round trip over generated derivations are bounded stand-ins; lark's LALR construction and "
      "lexer are trusted; string-literal tokens at the left of a boundary are covered by the bounded round trip only. "
      "Two recorded findings: empty list literal dump (test-pinned) and integer receiver before '.'.",
      "grammar-level obligations on the real compiled grammar (LALR conflict-freedom, production-set equality with the canonical precedence grammar), "
      "per-production unparser contracts by symbolic execution + z3 regex token-boundary obligations, bounded parser differential", "DESIGN.md 4/C06")
check("C04", "proof",
      "Raise-envelope contracts, two layers. Layer 1 (discharged): every Evaluator rule method that applies an operator or "
      "function (conditionalor/and, expr, relation x7, addition, multiplication, unary, member_index, function_eval, "
      "method_eval, exprlist, list/map literals, member_dot, evaluate) is executed symbolically from the real source for "
      "every combination of 14 operand kinds (13 value kinds + error value) with the resolved function ABSTRACT: it may "
      "return anything or raise any exception class of its declared envelope; obligation: the method returns or raises "
      "CELEvalError only (every other exit is an R obligation). CELParser.parse is executed with lark's parser abstract "
      "(returns or raises each lark error class): only CELParseError leaves.",
      "layer 2 (each real built-in operator/function raises only its declared envelope) is DISCHARGED for the 14 non-logical "
      "operators on all pairs of scalar kinds (bool, int64, uint64, double, string, bytes, null) by symbolic execution of the real "
      "celtypes code incl. CPython's exact float/int comparison and its __neg__ side effect, cross-checked per path; for containers, "
      "time values, types and the named functions it is a bounded check over a 60-value boundary grid; whole programs (every construct over atoms of every "
      "kind, both runners, compile/program/evaluate/str+repr stages), parse-error positions over all short texts, and "
      "CEL's minimum nesting in fresh interpreters with default / lowered / raised recursion limits are bounded stand-ins. "
      "One recorded finding: malformed macro argument lists.",
      "modular raise-envelope contracts (symbolic execution of the real rule methods against abstract callee envelopes) + bounded envelope/grid checks of the callees", "DESIGN.md 4/C04")
check("C03", "proof",
      "Per-construct simulation contracts between the two runners: for every operator / call / literal / selection construct the real "
      "Evaluator rule method (on a mock node) and the text the real Phase1/Phase2 transpiler emits for the same node are executed "
      "symbolically in one path, over all pairings of child outcomes (same value of 13 kinds / interpreter error value vs. compiled "
      "raise of each convertible class incl. a subclass / error value on both sides), with the operator implementations abstract, "
      "shared and deterministic. Obligations: S1 the emitted expression only raises classes result() converts, S2 error on one side "
      "iff error on the other, S3 equal value. Depth-2 compositions outer(inner(x)) of 19 constructs (quick: pairs with a unary "
      "operator or parenthesis; thorough: all 361) catch templates that look into their child. result() has its own contract "
      "(value passes; every convertible class, subclass, arg-less exception becomes an error value); 31 table obligations tie the "
      "emitted callee to base_functions[name].",
      "the whole-program differential (2342 conformance expressions with bindings and containers, every construct over atoms of "
      "every kind, sampled depth-3 programs) is a bounded stand-in; macros rely on C08/C09 (both runners against one spec); the "
      "operator envelopes on C04 layer 2 (bounded). Five recorded findings delimit regions where the runners genuinely differ "
      "(has() yields a Python bool; object construction; malformed macro calls; dotted binding vs macro variable; error VALUES "
      "kept as list/map elements or call arguments by compiled code).",
      "per-construct simulation contracts (symbolic co-execution of the real interpreter rule and the real emitted code against shared abstract callees) + result() contract + bounded whole-program differential", "DESIGN.md 4/C03")

# ---- round-4 additions to the notes (see DESIGN.md 9.9)
_ADD = {
    "C02": " Round 4: left-nested chains x && y && z / x || y || z on mock nodes over all 7^3 operand classes (a deciding operand anywhere decides); "
           "abstract macro contracts run their witness programs as the bounded stand-in when the exploration is undecided.",
    "C04": " Round 4: member_dot on a map with a string and an int key (raise-envelope incl. message construction); mixed-key maps and non-finite doubles among the program atoms.",
    "C05": " Round 4: the base activation of the frame contracts carries a declaration-only referent (clone / load_values must not share it); histories over texts that coincide after layout normalisation.",
    "C06": " Round 4: CELParser.parse called twice on one object with arbitrary different texts returns lark's tree for each text (abstract lark callee); "
           "bounded: significant-layout sequences with a token-position oracle.",
    "C08": " Round 4: E-table - every comparison dunder and __hash__ of TimestampType / DurationType resolves through the MRO to datetime / timedelta (exact comparison, trusted); "
           "an override in repository code is left undecided (opaque datetime) and the sweep (adjacent microseconds at the range ends, relations that raise count as incoherent) decides.",
    "C12": " Round 4: every listing order of the bindings (quick: as written and reversed; thorough: all permutations); macro variables that are declared but unbound (expectation: the macro-free program's outcome).",
    "C14": " Round 4: host functions raising a SUBCLASS of ValueError / TypeError in the rule and emitted-template contracts; variables, macro variables and declarations named like a host function in the native matrix.",
}
for _p, _t in _ADD.items():
    CHECKS[_p]["level_note"] += _t
