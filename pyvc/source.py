"""Extraction: map live function/code objects of /repo/src modules to the AST of the
file they were compiled from.  The file is re-read on every run; its sha256 goes
into the evidence.  Nothing is copied or rewritten by hand."""
from __future__ import annotations

import ast
import hashlib
import importlib
import os
import sys
import types

REPO_SRC = os.environ.get("PYVC_REPO_SRC", "/repo/src")


class SourceError(Exception):
    pass


class ModuleSource:
    def __init__(self, path):
        self.path = path
        with open(path, "rb") as f:
            data = f.read()
        self.sha256 = hashlib.sha256(data).hexdigest()
        self.text = data.decode("utf-8")
        self.tree = ast.parse(self.text, filename=path)
        self.lines = self.text.splitlines()
        self.funcs = {}      # (name, firstlineno) -> [node]
        self.by_qualname = {}
        self._index(self.tree, "")

    def _index(self, node, prefix):
        for child in ast.iter_child_nodes(node):
            if isinstance(child, (ast.FunctionDef, ast.AsyncFunctionDef)):
                first = min([d.lineno for d in child.decorator_list] + [child.lineno])
                self.funcs.setdefault((child.name, first), []).append(child)
                q = prefix + child.name
                self.by_qualname.setdefault(q, []).append(child)
                self._index(child, q + ".<locals>.")
            elif isinstance(child, ast.ClassDef):
                q = prefix + child.name
                self.by_qualname.setdefault(q, []).append(child)
                self._index(child, q + ".")
            elif isinstance(child, ast.Lambda):
                self.funcs.setdefault(("<lambda>", child.lineno), []).append(child)
                self._index(child, prefix + "<lambda>.<locals>.")
            else:
                self._index(child, prefix)

    def node_for_code(self, code):
        cands = self.funcs.get((code.co_name, code.co_firstlineno), [])
        if len(cands) == 1:
            return cands[0]
        if len(cands) > 1:
            # several lambdas on one line: disambiguate by argument names
            argnames = code.co_varnames[: code.co_argcount]
            c2 = [c for c in cands if tuple(a.arg for a in c.args.args) == tuple(argnames)]
            if len(c2) == 1:
                return c2[0]
        raise SourceError(f"no unique AST node for {code.co_name}@{code.co_firstlineno} in {self.path}")

    def span(self, node):
        return [node.lineno, getattr(node, "end_lineno", node.lineno)]


class Sources:
    def __init__(self, repo_src=REPO_SRC):
        self.repo_src = os.path.realpath(repo_src)
        self.mods = {}
        # library files whose *source* is executed symbolically as well (instead of being modelled by hand)
        self.extra_files = set()
        try:
            import lark.visitors, lark.tree
            self.extra_files |= {os.path.realpath(lark.visitors.__file__), os.path.realpath(lark.tree.__file__)}
        except Exception:
            pass
        import collections, _collections_abc
        self.extra_files |= {os.path.realpath(collections.__file__), os.path.realpath(_collections_abc.__file__)}

    def is_repo_file(self, path):
        if not path:
            return False
        return os.path.realpath(path).startswith(self.repo_src + os.sep)

    def module_source(self, path) -> ModuleSource:
        path = os.path.realpath(path)
        if path not in self.mods:
            self.mods[path] = ModuleSource(path)
        return self.mods[path]

    @staticmethod
    def code_file(code):
        fn = code.co_filename
        if fn.startswith("<frozen ") and fn.endswith(">"):
            # frozen stdlib module: its source file is the module's __file__
            mod = sys.modules.get(fn[8:-1])
            if mod is not None and getattr(mod, "__file__", None):
                return mod.__file__
        return fn

    def is_repo_function(self, f):
        """True if the function's source is executed symbolically (repository code or an inlined library file)."""
        code = getattr(f, "__code__", None)
        if code is None:
            return False
        fn = self.code_file(code)
        return self.is_repo_file(fn) or os.path.realpath(fn) in self.extra_files

    def node_for_function(self, f):
        code = f.__code__
        ms = self.module_source(self.code_file(code))
        return ms.node_for_code(code), ms

    def is_repo_class(self, cls):
        mod = sys.modules.get(getattr(cls, "__module__", None))
        return mod is not None and self.is_repo_file(getattr(mod, "__file__", None))


def import_repo(name):
    """Import a repository module, asserting it comes from the working tree."""
    mod = importlib.import_module(name)
    path = os.path.realpath(mod.__file__)
    if not path.startswith(os.path.realpath(REPO_SRC) + os.sep):
        raise SourceError(f"{name} imported from {path}, not from {REPO_SRC}")
    return mod
