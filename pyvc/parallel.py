"""Run a list of contracts in a fork-based process pool (contracts hold lambdas, so the list is
inherited by the workers rather than pickled; results are plain-data Reports)."""
import multiprocessing as mp
import os
import traceback

from . import verify
from . import symexec as se

_CS = None
_KNOWN = None


def _work(i):
    rep = verify.Report("worker")
    try:
        verify.check_contract(_CS[i], rep, engine=se.Engine(), known=_KNOWN)
    except Exception as ex:  # pragma: no cover
        rep.errors.append(f"{_CS[i].name}: worker crash {ex!r}\n{traceback.format_exc()}")
    return rep


def run_contracts(cs, rep, known=None, procs=None):
    global _CS, _KNOWN
    _CS, _KNOWN = cs, known
    procs = procs or int(os.environ.get("PYVC_PROCS", "0")) or min(16, os.cpu_count() or 4)
    if procs <= 1 or len(cs) <= 1:
        for i in range(len(cs)):
            rep.merge(_work(i))
        return
    ctx = mp.get_context("fork")
    with ctx.Pool(min(procs, len(cs))) as pool:
        for r in pool.imap(_work, range(len(cs)), chunksize=1):
            rep.merge(r)
