"""Symbolic values of the pyvc executor.

Every value carries a *concrete* Python class (the real class object, taken from the
live interpreter that imported /repo/src) and a z3 payload.  Class-level questions
(isinstance, issubclass, MRO, which class defines a dunder) are therefore answered by
CPython itself; only payloads are symbolic.
"""
from __future__ import annotations

import z3

FP = z3.Float64()
RNE = z3.RNE()
BV8 = z3.BitVecSort(8)
BYTES = z3.SeqSort(BV8)


class SV:
    __slots__ = ()


class VInt(SV):
    """int family: int, bool, BoolType, IntType, UintType (and subclasses)."""
    __slots__ = ("cls", "t")

    def __init__(self, cls, t):
        self.cls = cls
        self.t = z3.IntVal(t) if isinstance(t, int) else t

    def __repr__(self):
        return f"VInt({self.cls.__name__},{self.t})"


class VFloat(SV):
    __slots__ = ("cls", "t")

    def __init__(self, cls, t):
        self.cls = cls
        self.t = z3.FPVal(t, FP) if isinstance(t, float) else t

    def __repr__(self):
        return f"VFloat({self.cls.__name__},{self.t})"


class VStr(SV):
    __slots__ = ("cls", "t")

    def __init__(self, cls, t):
        self.cls = cls
        self.t = z3.StringVal(t) if isinstance(t, str) else t

    def __repr__(self):
        return f"VStr({self.cls.__name__},{self.t})"


class VTok(VStr):
    """str subclass instance with attributes (lark.Token)."""
    __slots__ = ("attrs",)

    def __init__(self, cls, t, attrs=None):
        super().__init__(cls, t)
        self.attrs = attrs if attrs is not None else {}


class VBytes(SV):
    __slots__ = ("cls", "t")

    def __init__(self, cls, t):
        self.cls = cls
        if isinstance(t, (bytes, bytearray)):
            if len(t) == 0:
                t = z3.Empty(BYTES)
            else:
                units = [z3.Unit(z3.BitVecVal(b, 8)) for b in t]
                t = units[0] if len(units) == 1 else z3.Concat(*units)
        self.t = t

    def __repr__(self):
        return f"VBytes({self.cls.__name__},{self.t})"


class VNone(SV):
    __slots__ = ()
    cls = type(None)

    def __repr__(self):
        return "VNone"


NONE = VNone()


class VNative(SV):
    """A real Python object known concretely (class, module, function, constant)."""
    __slots__ = ("obj",)

    def __init__(self, obj):
        self.obj = obj

    @property
    def cls(self):
        return type(self.obj)

    def __repr__(self):
        return f"VNative({self.obj!r})"


NOTIMPL = VNative(NotImplemented)


class VList(SV):
    """list family with a concrete number of (symbolic) items; mutable."""
    __slots__ = ("cls", "items")

    def __init__(self, cls, items):
        self.cls = cls
        self.items = list(items)

    def __repr__(self):
        return f"VList({self.cls.__name__},{self.items})"


class VTuple(SV):
    __slots__ = ("items",)
    cls = tuple

    def __init__(self, items):
        self.items = list(items)

    def __repr__(self):
        return f"VTuple({self.items})"


class VDict(SV):
    """dict family; keys are SVs compared structurally (concrete keys only for lookup)."""
    __slots__ = ("cls", "pairs", "attrs")

    def __init__(self, cls, pairs=(), attrs=None):
        self.cls = cls
        self.pairs = [list(p) for p in pairs]
        self.attrs = attrs if attrs is not None else {}

    def __repr__(self):
        return f"VDict({self.cls.__name__},{self.pairs})"


class VSet(SV):
    __slots__ = ("cls", "items")

    def __init__(self, cls, items):
        self.cls = cls
        self.items = list(items)


class VObj(SV):
    """Heap object: instance of a repository class (or exception) with attributes."""
    __slots__ = ("cls", "attrs", "label")

    def __init__(self, cls, attrs=None, label=None):
        self.cls = cls
        self.attrs = attrs if attrs is not None else {}
        self.label = label

    def __repr__(self):
        return f"VObj({self.cls.__name__}{'#' + self.label if self.label else ''})"


class VFunc(SV):
    """A function whose body is the AST of the real source."""
    __slots__ = ("node", "env", "defcls", "module", "name", "qualname")
    cls = type(lambda: 0)

    def __init__(self, node, env, module, defcls=None, name=None, qualname=None):
        self.node = node
        self.env = env
        self.module = module
        self.defcls = defcls
        self.name = name or getattr(node, "name", "<lambda>")
        self.qualname = qualname or self.name

    def __repr__(self):
        return f"VFunc({self.qualname})"


class VModel(SV):
    """A callable implemented by a model function of the executor."""
    __slots__ = ("fn", "name", "selfv", "meta")
    cls = type(len)

    def __init__(self, fn, name, selfv=None, meta=None):
        self.fn = fn
        self.name = name
        self.selfv = selfv
        self.meta = meta

    def __repr__(self):
        return f"VModel({self.name})"


class VBound(SV):
    __slots__ = ("func", "selfv")
    cls = type(VInt.__repr__)

    def __init__(self, func, selfv):
        self.func = func
        self.selfv = selfv

    def __repr__(self):
        return f"VBound({self.func},{self.selfv})"


class VSuper(SV):
    __slots__ = ("after", "obj", "objcls")
    cls = super

    def __init__(self, after, obj, objcls):
        self.after = after      # class whose successors in the MRO are searched
        self.obj = obj          # instance (or None for class-level super)
        self.objcls = objcls    # type whose MRO is used


class VIter(SV):
    """Lazy iterator (generator expression, map, filter, zip, iter)."""
    __slots__ = ("it", "kind")
    cls = type(iter(()))

    def __init__(self, it, kind="iterator"):
        self.it = it
        self.kind = kind


class VSymIter(SV):
    """Iterator over a sequence of unknown length: next_elem(run) yields an arbitrary further element."""
    __slots__ = ("next_elem", "label", "source", "length")
    cls = type(iter(()))

    def __init__(self, next_elem, label="symbolic-iterator", source=None):
        self.next_elem = next_elem
        self.label = label
        self.source = source
        self.length = None


class VSymList(SV):
    """list-family value of unknown length whose elements are arbitrary members of an element domain."""
    __slots__ = ("cls", "next_elem", "label", "length", "source")

    def __init__(self, cls, next_elem, label="symbolic-list"):
        self.cls = cls
        self.next_elem = next_elem
        self.label = label
        self.length = None
        self.source = None


class VZSeq(SV):
    """list-family value whose content is a z3 sequence of unknown length (homogeneous int or string elements)."""
    __slots__ = ("cls", "t", "elem_cls")

    def __init__(self, cls, t, elem_cls):
        self.cls = cls
        self.t = t
        self.elem_cls = elem_cls


class VZSet(SV):
    """set built from symbolic sequences: membership predicate over a z3 element (builtin set semantics)."""
    __slots__ = ("cls", "member", "sort", "elem_cls", "tag")

    def __init__(self, member, sort, elem_cls, tag=None, cls=set):
        self.cls = cls
        self.member = member
        self.sort = sort
        self.elem_cls = elem_cls
        self.tag = tag


class VText(SV):
    """Abstract program text (ghost typing): the loosest top-level operator class of the text and its
    boolean denotation over the primitive clauses.  Used for the policy translator (C18)."""
    __slots__ = ("prec", "den", "label")
    cls = str

    def __init__(self, prec, den, label=""):
        self.prec = prec
        self.den = den
        self.label = label

    def __repr__(self):
        return f"VText(prec={self.prec},{self.den})"


class VOpaque(SV):
    """A value the executor knows nothing about except (optionally) its class."""
    __slots__ = ("label", "cls")

    def __init__(self, label, cls=object):
        self.label = label
        self.cls = cls

    def __repr__(self):
        return f"VOpaque({self.label})"


def is_concrete(v):
    if isinstance(v, VInt):
        return z3.is_int_value(v.t)
    if isinstance(v, VFloat):
        return z3.is_fp_value(v.t)
    if isinstance(v, VStr):
        return z3.is_string_value(v.t)
    if isinstance(v, (VNone, VNative)):
        return True
    if isinstance(v, (VList, VTuple, VSet)):
        return all(is_concrete(i) for i in v.items)
    return False
