"""pyvc symbolic executor: runs the AST of real /repo functions over symbolic values.

Path exploration is by decision-trace re-execution: a path is identified by the list of
outcomes of its symbolic branches; unexplored alternatives are queued.  Anything outside
the supported subset raises Unsupported, which makes the obligation *undecided* (never
discharged, never a violation).
"""
from __future__ import annotations

import ast
import builtins
import types
import sys

import z3

from .values import *  # noqa: F401,F403
from .values import SV, VInt, VFloat, VStr, VBytes, VNone, NONE, VNative, NOTIMPL, VList, VTuple, VDict, VSet, \
    VObj, VFunc, VModel, VBound, VSuper, VIter, VOpaque, VSymIter, VSymList, VTok, VZSeq, VZSet, FP, RNE, BYTES, is_concrete
from .source import Sources


class Unsupported(Exception):
    """Construct outside the executor's subset: obligation undecided."""


class Infeasible(Exception):
    """Path condition became unsatisfiable."""


class PyRaise(Exception):
    def __init__(self, exc):
        super().__init__(repr(exc))
        self.exc = exc


class _Return(Exception):
    def __init__(self, value):
        self.value = value


class _Break(Exception):
    pass


class _Continue(Exception):
    pass


class VSlice(SV):
    __slots__ = ("lo", "hi", "step")
    cls = slice

    def __init__(self, lo, hi, step):
        self.lo, self.hi, self.step = lo, hi, step


class Env:
    __slots__ = ("vars", "parent", "globals", "globals_decl", "nonlocal_decl", "func")

    def __init__(self, vars, parent, globals_, func=None):
        self.vars = vars
        self.parent = parent
        self.globals = globals_
        self.globals_decl = set()
        self.nonlocal_decl = set()
        self.func = func

    def child(self):
        return Env({}, self, self.globals, self.func)


class Path:
    def __init__(self, run, kind, value):
        self.run = run
        self.kind = kind      # 'return' | 'raise' | 'unsupported' | 'infeasible'
        self.value = value
        self.pc = list(run.pc)
        self.decisions = list(run.decisions)

    def __repr__(self):
        return f"Path({self.kind},{self.value})"


class Engine:
    def __init__(self, solver_timeout_ms=10000, max_paths=4000, loop_bound=64):
        self.sources = Sources()
        self.solver_timeout_ms = solver_timeout_ms
        self.max_paths = max_paths
        self.loop_bound = loop_bound
        self.overrides = {}     # real function object -> model fn(run, *args, **kw)
        self.used_sources = {}  # path -> sha
        self.func_cache = {}
        from . import models
        self.models = models
        self.stats = {"paths": 0, "feasibility_checks": 0, "solver_s": 0.0}

    # ---------------------------------------------------------------- exploration
    def explore(self, thunk, max_paths=None):
        max_paths = max_paths or self.max_paths
        work = [[]]
        paths = []
        while work:
            if len(paths) >= max_paths:
                raise Unsupported(f"path budget {max_paths} exhausted")
            dec = work.pop()
            run = Run(self, dec)
            try:
                try:
                    v = thunk(run)
                    p = Path(run, "return", v)
                except PyRaise as e:
                    p = Path(run, "raise", e.exc)
                except Unsupported as u:
                    p = Path(run, "unsupported", str(u))
                except Infeasible:
                    p = Path(run, "infeasible", None)
                except RecursionError:
                    p = Path(run, "unsupported", "executor recursion limit")
            finally:
                work.extend(run.new_alts)
            if p.kind != "infeasible":
                paths.append(p)
            self.stats["paths"] += 1
        return paths

    # ---------------------------------------------------------------- functions
    def vfunc_of(self, f):
        """VFunc for a live repository function object (AST from the real file)."""
        key = id(f)
        hit = self.func_cache.get(key)
        if hit is not None and hit[0] is f:
            return hit[1]
        node, ms = self.sources.node_for_function(f)
        self.used_sources[ms.path] = ms.sha256
        closure = {}
        if f.__closure__:
            for name, cell in zip(f.__code__.co_freevars, f.__closure__):
                try:
                    closure[name] = self.lift(cell.cell_contents)
                except ValueError:
                    pass
        env = Env(closure, None, f.__globals__)
        vf = VFunc(node, env, f.__module__, name=f.__name__, qualname=f.__qualname__)
        vf_defaults[id(vf)] = (
            [self.lift(d) for d in (f.__defaults__ or ())],
            {k: self.lift(v) for k, v in (f.__kwdefaults__ or {}).items()},
            vf,
        )
        self.func_cache[key] = (f, vf)
        return vf

    def lift(self, obj):
        return lift(obj)


vf_defaults = {}   # id(VFunc) -> (defaults, kwdefaults, keepalive)


def lift(obj):
    """Native Python object -> SV (concrete)."""
    if isinstance(obj, SV):
        return obj
    if obj is None:
        return NONE
    if obj is NotImplemented:
        return NOTIMPL
    t = type(obj)
    if isinstance(obj, int):
        return VInt(t, int(obj))
    if isinstance(obj, float):
        return VFloat(t, float(obj))
    if isinstance(obj, str):
        return VStr(t, str.__str__(obj))
    if isinstance(obj, bytes):
        return VBytes(t, bytes(obj))
    if t is tuple:
        return VTuple([lift(x) for x in obj])
    if isinstance(obj, list):
        return VList(t, [lift(x) for x in list.__iter__(obj)])
    if isinstance(obj, dict) and not hasattr(obj, "__dict__") or t is dict:
        return VDict(t, [[lift(k), lift(v)] for k, v in dict.items(obj)])
    if isinstance(obj, dict) and t.__module__.startswith("celpy.celtypes"):
        return VDict(t, [[lift(k), lift(v)] for k, v in dict.items(obj)], dict(getattr(obj, "__dict__", {})))
    if t in (set, frozenset):
        return VSet(t, [lift(x) for x in obj])
    return VNative(obj)


class NotConcrete(Exception):
    pass


def conc(v):
    """SV -> native Python object; NotConcrete if any payload is symbolic."""
    if isinstance(v, VInt):
        if not z3.is_int_value(v.t):
            t = z3.simplify(v.t)
            if not z3.is_int_value(t):
                raise NotConcrete
            v = VInt(v.cls, t)
        n = v.t.as_long()
        if v.cls is int:
            return n
        if v.cls is bool:
            return bool(n)
        return int.__new__(v.cls, n)
    if isinstance(v, VFloat):
        t = z3.simplify(v.t)
        if not z3.is_fp_value(t):
            raise NotConcrete
        x = fp_to_py(t)
        return x if v.cls is float else float.__new__(v.cls, x)
    if isinstance(v, VStr):
        t = v.t if z3.is_string_value(v.t) else z3.simplify(v.t)
        if not z3.is_string_value(t):
            raise NotConcrete
        s = zstr_to_py(t)
        return s if v.cls is str else str.__new__(v.cls, s)
    if isinstance(v, VBytes):
        t = z3.simplify(v.t)
        b = zbytes_to_py(t)
        if b is None:
            raise NotConcrete
        return b if v.cls is bytes else bytes.__new__(v.cls, b)
    if isinstance(v, VNone):
        return None
    if isinstance(v, VNative):
        return v.obj
    if isinstance(v, VTuple):
        return tuple(conc(i) for i in v.items)
    if isinstance(v, VList):
        items = [conc(i) for i in v.items]
        if v.cls is list:
            return items
        r = list.__new__(v.cls)
        list.__init__(r, items)
        return r
    if isinstance(v, VSet):
        return v.cls(conc(i) for i in v.items)
    if isinstance(v, VDict) and v.cls is dict:
        return {conc(k): conc(x) for k, x in v.pairs}
    raise NotConcrete


def zstr_to_py(t):
    s = t.as_string()
    # z3 escapes non-printable / non-ascii as \u{...}
    out = []
    i = 0
    while i < len(s):
        if s.startswith("\\u{", i):
            j = s.index("}", i)
            out.append(chr(int(s[i + 3:j], 16)))
            i = j + 1
        else:
            out.append(s[i])
            i += 1
    return "".join(out)


def zbytes_to_py(t):
    if z3.is_app(t):
        name = t.decl().name()
        if name == "seq.empty":
            return b""
        if name == "seq.unit":
            a = t.arg(0)
            if z3.is_bv_value(a):
                return bytes([a.as_long()])
            return None
        if name == "seq.++":
            parts = [zbytes_to_py(t.arg(i)) for i in range(t.num_args())]
            if any(p is None for p in parts):
                return None
            return b"".join(parts)
    return None


def fp_to_py(t):
    if z3.is_fp_value(t):
        if t.isNaN():
            return float("nan")
        if t.isInf():
            return float("-inf") if t.isNegative() else float("inf")
        if t.isZero():
            return -0.0 if t.isNegative() else 0.0
        import struct
        sign = 1 if t.sign() else 0
        exp = t.exponent_as_long(True)
        sig = t.significand_as_long()
        bits = (sign << 63) | (exp << 52) | sig
        return struct.unpack(">d", struct.pack(">Q", bits))[0]
    raise NotConcrete


def cls_of(v):
    return v.cls


def mk_bool(run, b):
    """z3 Bool / python bool -> native bool VInt."""
    if isinstance(b, bool):
        return VInt(bool, 1 if b else 0)
    b = z3.simplify(b)
    if z3.is_true(b):
        return VInt(bool, 1)
    if z3.is_false(b):
        return VInt(bool, 0)
    return VInt(bool, z3.If(b, z3.IntVal(1), z3.IntVal(0)))


class Run:
    """One path execution."""

    def __init__(self, engine, decisions):
        self.engine = engine
        self.decisions = list(decisions)
        self.pos = 0
        self.new_alts = []
        self.pc = []
        self.solver = z3.Solver()
        self.solver.set("timeout", engine.solver_timeout_ms)
        self.counter = 0
        self.assumptions = set()
        self.ghost = {}
        self.depth = 0
        self.trace = []
        self.overapprox = False   # set when a model over-approximated (nondeterministic outcome of a library call)
        self.asserts = []     # in-path proof obligations: (pc snapshot, formula, label)
        self.global_overlay = {}   # (id(module dict), name) -> SV : writes to module globals stay inside the path
        self.shared = {}           # id(real mutable module-level object) -> its one symbolic image in this path
        self.shared_names = {}     # id(symbolic image) -> global name
        self.heap_writes = []      # (target SV, what) for every dict/list mutation
        self.native_overlay = {}   # id(real dict) -> {key: SV} writes to live dicts (never applied to the real object)
        self.class_overlay = {}    # (class, attribute) -> SV

    def check(self, formula, label):
        """Record an obligation that must hold at this program point (loop/fold invariants)."""
        self.asserts.append((list(self.pc), formula, label))

    # -- symbols
    def fresh(self, prefix, sort):
        self.counter += 1
        return z3.Const(f"{prefix}!{self.counter}", sort)

    def fresh_int(self, prefix="i"):
        return self.fresh(prefix, z3.IntSort())

    def assume(self, c):
        if isinstance(c, bool):
            if not c:
                raise Infeasible()
            return
        self.pc.append(c)
        self.solver.add(c)

    def feasible(self, c):
        import time
        t0 = time.time()
        self.solver.push()
        self.solver.add(c)
        r = self.solver.check()
        self.solver.pop()
        self.engine.stats["feasibility_checks"] += 1
        self.engine.stats["solver_s"] += time.time() - t0
        return r != z3.unsat

    def branch(self, c):
        if isinstance(c, bool):
            return c
        c = z3.simplify(c)
        if z3.is_true(c):
            return True
        if z3.is_false(c):
            return False
        if self.pos < len(self.decisions):
            d = self.decisions[self.pos]
            self.pos += 1
            self.assume(c if d else z3.Not(c))
            return d
        ft = self.feasible(c)
        ff = self.feasible(z3.Not(c))
        if ft and ff:
            self.new_alts.append(self.decisions + [False])
            d = True
        elif ft:
            d = True
        elif ff:
            d = False
        else:
            raise Infeasible()
        self.decisions.append(d)
        self.pos += 1
        self.assume(c if d else z3.Not(c))
        return d

    def choose(self, n, label="choice"):
        """Nondeterministic choice among n alternatives (binary decisions)."""
        for i in range(n - 1):
            b = self.fresh(label, z3.BoolSort())
            if self.branch(b):
                return i
        return n - 1

    def note(self, text):
        self.assumptions.add(text)

    # ------------------------------------------------------------ exceptions
    def make_exc(self, cls, *args):
        return VObj(cls, {"args": VTuple([lift(a) for a in args])})

    def throw(self, cls, *args):
        raise PyRaise(self.make_exc(cls, *args))

    # ------------------------------------------------------------ truthiness
    def truth(self, v):
        """-> z3 Bool or python bool."""
        if isinstance(v, VInt):
            return v.t != 0
        if isinstance(v, VNone):
            return False
        if isinstance(v, VFloat):
            return z3.Not(z3.fpIsZero(v.t))
        if isinstance(v, VStr):
            return z3.Length(v.t) > 0
        if isinstance(v, VBytes):
            return z3.Length(v.t) > 0
        if isinstance(v, (VList, VTuple, VSet)):
            return len(v.items) > 0
        if isinstance(v, VZSet):
            return self.truth(self.engine.models._set_bool(self, v))
        if isinstance(v, VZSeq):
            return z3.Length(v.t) > 0
        if isinstance(v, VDict):
            return len(v.pairs) > 0
        if isinstance(v, VNative):
            try:
                return bool(v.obj)
            except Exception:
                raise Unsupported("truth of native object")
        if isinstance(v, (VFunc, VModel, VBound)):
            return True
        if isinstance(v, VObj):
            f = self.find_attr(v.cls, "__bool__")
            if f is not None and f[0] is not object:
                return self.truth(self.call(self.getattr(v, "__bool__"), []))
            f = self.find_attr(v.cls, "__len__")
            if f is not None:
                r = self.call(self.getattr(v, "__len__"), [])
                return r.t != 0
            return True
        raise Unsupported(f"truth of {v!r}")

    def is_true(self, v):
        return self.branch(self.truth(v))

    # ------------------------------------------------------------ attribute lookup
    def find_attr(self, cls, name):
        for K in cls.__mro__:
            d = K.__dict__
            if name in d:
                return K, d[name]
        return None

    def find_attr_after(self, mro, after, name):
        seen = False
        for K in mro:
            if seen:
                if name in K.__dict__:
                    return K, K.__dict__[name]
            elif K is after:
                seen = True
        return None

    def bind_raw(self, K, name, raw, inst, owner):
        srcs = self.engine.sources
        try:
            overridden = raw in self.engine.overrides
        except TypeError:
            overridden = False
        if overridden and not isinstance(raw, (types.FunctionType, staticmethod, classmethod, property)):
            f = VNative(raw)
            return VBound(f, inst) if inst is not None else f
        if isinstance(raw, types.FunctionType):
            if srcs.is_repo_function(raw) or raw in self.engine.overrides:
                f = VNative(raw)
                return VBound(f, inst) if inst is not None else f
            m = self.engine.models.method_model(K, name)
            if m is not None:
                return VModel(m, f"{K.__name__}.{name}", inst)
            raise Unsupported(f"non-repository python method {K.__name__}.{name}")
        if isinstance(raw, staticmethod):
            fn = raw.__func__
            if isinstance(fn, types.FunctionType) and srcs.is_repo_function(fn):
                return VNative(fn)
            m = self.engine.models.method_model(K, name)
            if m is not None:
                return VModel(m, f"{K.__name__}.{name}", None)
            raise Unsupported(f"staticmethod {K.__name__}.{name}")
        if isinstance(raw, classmethod):
            return VBound(VNative(raw.__func__), VNative(owner))
        if isinstance(raw, property):
            if inst is None:
                return VNative(raw)
            if raw.fget is not None and srcs.is_repo_function(raw.fget):
                return self.call(VNative(raw.fget), [inst])
            raise Unsupported(f"property {K.__name__}.{name}")
        if isinstance(raw, (types.WrapperDescriptorType, types.MethodDescriptorType, types.BuiltinFunctionType,
                            types.GetSetDescriptorType, types.MemberDescriptorType, types.ClassMethodDescriptorType)):
            m = self.engine.models.method_model(K, name)
            if m is None:
                raise Unsupported(f"no model for builtin {K.__name__}.{name}")
            if isinstance(raw, (types.GetSetDescriptorType, types.MemberDescriptorType)):
                if inst is None:
                    return VNative(raw)
                return m(self, inst)
            if name == "__new__":
                return VModel(m, f"{K.__name__}.__new__", None)
            return VModel(m, f"{K.__name__}.{name}", inst)
        return lift(raw)

    def getattr(self, v, name):
        if isinstance(v, VBound):
            if name == "__name__":
                return self.getattr(v.func, "__name__")
            if name == "__self__":
                return v.selfv
            if name == "__func__":
                return v.func
            if isinstance(v.func, VNative):
                if hasattr(v.func.obj, name):
                    return lift(getattr(v.func.obj, name))
                self.throw(AttributeError, f"'method' object has no attribute '{name}'")
        if isinstance(v, VFunc):
            if name == "__name__":
                return VStr(str, v.name)
            if name == "__qualname__":
                return VStr(str, v.qualname)
            if name == "__module__":
                return VStr(str, v.module)
            raise Unsupported(f"function attribute {name}")
        if isinstance(v, VModel):
            if name == "__name__":
                return VStr(str, v.name.split(".")[-1])
            raise Unsupported(f"model attribute {name}")
        if isinstance(v, VSuper):
            hit = self.find_attr_after(v.objcls.__mro__, v.after, name)
            if hit is None:
                self.throw(AttributeError, f"'super' object has no attribute '{name}'")
            K, raw = hit
            if name == "__new__" and isinstance(raw, staticmethod):
                return self.bind_raw(K, name, raw, None, v.objcls)
            return self.bind_raw(K, name, raw, v.obj, v.objcls)
        if isinstance(v, VNative):
            obj = v.obj
            if isinstance(obj, type):
                if name == "__name__":
                    return VStr(str, obj.__name__)
                if name == "__qualname__":
                    return VStr(str, obj.__qualname__)
                if name == "__mro__":
                    return lift(obj.__mro__)
                if (obj, name) in self.class_overlay:
                    return self.class_overlay[(obj, name)]
                hit = self.find_attr(obj, name)
                if hit is None:
                    # metaclass attributes
                    mhit = self.find_attr(type(obj), name)
                    if mhit is None:
                        self.throw(AttributeError, f"type object '{obj.__name__}' has no attribute '{name}'")
                    return self.bind_raw(mhit[0], name, mhit[1], v, type(obj))
                K, raw = hit
                if isinstance(raw, classmethod):
                    return VBound(VNative(raw.__func__), v)
                return self.bind_raw(K, name, raw, None, obj)
            if isinstance(obj, types.ModuleType):
                try:
                    return lift(getattr(obj, name))
                except AttributeError:
                    self.throw(AttributeError, f"module has no attribute '{name}'")
            if isinstance(obj, (types.FunctionType, types.BuiltinFunctionType)):
                if name in ("__name__", "__qualname__", "__module__", "__doc__"):
                    return lift(getattr(obj, name))
                if name == "__globals__" and isinstance(obj, types.FunctionType):
                    return VNative(obj.__globals__)
                raise Unsupported(f"function attribute {name}")
            m = self.engine.models.native_attr(self, v, name)
            if m is not None:
                return m
            if not hasattr(type(obj), name) and not hasattr(obj, name):
                self.throw(AttributeError, f"'{type(obj).__name__}' object has no attribute '{name}'")
            raise Unsupported(f"attribute {name} of native {type(obj).__name__}")
        # instances
        cls = v.cls
        if name == "__class__":
            return VNative(cls)
        hit = self.find_attr(cls, name)
        # data descriptors first
        if hit is not None and isinstance(hit[1], property):
            return self.bind_raw(hit[0], name, hit[1], v, cls)
        attrs = getattr(v, "attrs", None)
        if attrs is not None and name in attrs:
            return attrs[name]
        if hit is not None:
            return self.bind_raw(hit[0], name, hit[1], v, cls)
        ga = self.find_attr(cls, "__getattr__")
        if ga is not None:
            return self.call(self.bind_raw(ga[0], "__getattr__", ga[1], v, cls), [VStr(str, name)])
        m = self.engine.models.instance_attr(self, v, name)
        if m is not None:
            return m
        self.throw(AttributeError, f"'{cls.__name__}' object has no attribute '{name}'")

    def setattr(self, v, name, val):
        if isinstance(v, (VObj, VDict)) and v.attrs is not None:
            hit = self.find_attr(v.cls, name)
            if hit is not None and isinstance(hit[1], property):
                if hit[1].fset is None:
                    self.throw(AttributeError, "can't set attribute")
                self.call(VNative(hit[1].fset), [v, val])
                return
            v.attrs[name] = val
            self.ghost.setdefault("writes", []).append((v, name))
            self.heap_writes.append((v, f"attr:{name}"))
            return
        if isinstance(v, VNative) and isinstance(v.obj, type):
            # a class attribute is shared by every instance (and thread): recorded, kept in an overlay
            self.ghost.setdefault("writes", []).append((v, name))
            self.heap_writes.append((v, f"class-attr:{name}"))
            self.class_overlay[(v.obj, name)] = val
            return
        raise Unsupported(f"setattr on {v!r}")

    # ------------------------------------------------------------ calls
    def call(self, f, args, kwargs=None):
        kwargs = kwargs or {}
        self.depth += 1
        if self.depth > 120:
            self.depth -= 1
            raise Unsupported("call depth")
        try:
            return self._call(f, args, kwargs)
        finally:
            self.depth -= 1

    def _call(self, f, args, kwargs):
        if isinstance(f, VBound):
            return self._call(f.func, [f.selfv] + list(args), kwargs)
        if isinstance(f, VModel):
            a = ([f.selfv] if f.selfv is not None else []) + list(args)
            return f.fn(self, *a, **kwargs)
        if isinstance(f, VFunc):
            return self.call_ast(f, args, kwargs)
        if isinstance(f, VNative):
            obj = f.obj
            try:
                ov = self.engine.overrides.get(obj)
            except TypeError:
                ov = None
            if ov is not None:
                return ov(self, *args, **kwargs)
            if isinstance(obj, types.FunctionType) and self.engine.sources.is_repo_function(obj):
                return self.call_ast(self.engine.vfunc_of(obj), args, kwargs)
            m = self.engine.models.call_model(obj)
            if m is not None:
                return m(self, *args, **kwargs)
            if isinstance(obj, type):
                return self.instantiate(obj, args, kwargs)
            if isinstance(obj, types.MethodType):
                return self._call(VBound(lift(obj.__func__), lift(obj.__self__)), args, kwargs)
            raise Unsupported(f"call of native {obj!r}")
        if isinstance(f, (VObj, VDict)):
            hit = self.find_attr(f.cls, "__call__")
            if hit is not None:
                return self._call(self.bind_raw(hit[0], "__call__", hit[1], f, f.cls), args, kwargs)
            self.throw(TypeError, f"'{f.cls.__name__}' object is not callable")
        if isinstance(f, VOpaque):
            h = self.ghost.get("opaque_call")
            if h is not None:
                return h(self, f, args, kwargs)
            raise Unsupported(f"call of opaque {f.label}")
        self.throw(TypeError, f"'{cls_of(f).__name__}' object is not callable")

    def instantiate(self, cls, args, kwargs):
        if cls is type and len(args) == 1 and not kwargs:
            return VNative(cls_of(args[0]))
        meta = type(cls)
        if meta is not type:
            mc = self.find_attr(meta, "__call__")
            if mc is not None and mc[0] is not type:
                raise Unsupported(f"metaclass __call__ of {cls.__name__}")
        K, raw = self.find_attr(cls, "__new__")
        newf = self.bind_raw(K, "__new__", raw, None, cls)
        if K is object:
            inst = self.engine.models.object_new(self, VNative(cls))
        else:
            inst = self._call(newf, [VNative(cls)] + list(args), kwargs)
        if isinstance(inst, SV) and not isinstance(inst, VOpaque) and issubclass(cls_of(inst), cls):
            K2, raw2 = self.find_attr(cls_of(inst), "__init__")
            if K2 is not object:
                initf = self.bind_raw(K2, "__init__", raw2, inst, cls_of(inst))
                self._call(initf, list(args), kwargs)
            elif K is object and (args or kwargs):
                self.throw(TypeError, f"{cls.__name__}() takes no arguments")
        return inst

    def call_ast(self, vf, args, kwargs):
        node = vf.node
        dflt = vf_defaults.get(id(vf))
        defaults, kwdefaults = (dflt[0], dflt[1]) if dflt else ([], {})
        env = Env({}, vf.env, vf.env.globals if vf.env is not None else {}, vf)
        a = node.args
        params = [p.arg for p in a.posonlyargs] + [p.arg for p in a.args]
        args = list(args)
        kwargs = dict(kwargs)
        npos = len(params)
        for i, p in enumerate(params):
            if i < len(args):
                if p in kwargs:
                    self.throw(TypeError, f"{vf.name}() got multiple values for argument '{p}'")
                env.vars[p] = args[i]
            elif p in kwargs:
                env.vars[p] = kwargs.pop(p)
            else:
                di = i - (npos - len(defaults))
                if di >= 0:
                    env.vars[p] = defaults[di]
                else:
                    self.throw(TypeError, f"{vf.name}() missing required positional argument '{p}'")
        if len(args) > npos:
            if a.vararg is None:
                self.throw(TypeError, f"{vf.name}() takes {npos} positional arguments but {len(args)} were given")
            env.vars[a.vararg.arg] = VTuple(args[npos:])
        elif a.vararg is not None:
            env.vars[a.vararg.arg] = VTuple([])
        for p in a.kwonlyargs:
            if p.arg in kwargs:
                env.vars[p.arg] = kwargs.pop(p.arg)
            elif p.arg in kwdefaults:
                env.vars[p.arg] = kwdefaults[p.arg]
            else:
                self.throw(TypeError, f"{vf.name}() missing keyword-only argument '{p.arg}'")
        if kwargs:
            if a.kwarg is None:
                self.throw(TypeError, f"{vf.name}() got an unexpected keyword argument '{next(iter(kwargs))}'")
            env.vars[a.kwarg.arg] = VDict(dict, [[VStr(str, k), v] for k, v in kwargs.items()])
        elif a.kwarg is not None:
            env.vars[a.kwarg.arg] = VDict(dict, [])
        if isinstance(node, ast.Lambda):
            return self.eval(node.body, env)
        if _is_generator(node):
            # generator function: run the body eagerly, collecting what it yields (sound when the generator is
            # consumed completely or has no side effects; noted as an assumption)
            self.note("generator functions are executed eagerly (their yields collected into a list)")
            env.vars["$yields"] = []
            try:
                self.exec_block(node.body, env)
            except _Return:
                pass
            return VIter(iter(env.vars["$yields"]), "generator")
        try:
            self.exec_block(node.body, env)
        except _Return as r:
            return r.value
        return NONE

    # ------------------------------------------------------------ statements
    def exec_block(self, stmts, env):
        for s in stmts:
            self.exec(s, env)

    def exec(self, s, env):
        m = getattr(self, "x_" + type(s).__name__, None)
        if m is None:
            raise Unsupported(f"statement {type(s).__name__}")
        return m(s, env)

    def x_Expr(self, s, env):
        self.eval(s.value, env)

    def x_Pass(self, s, env):
        pass

    def x_Return(self, s, env):
        raise _Return(self.eval(s.value, env) if s.value is not None else NONE)

    def x_Break(self, s, env):
        raise _Break()

    def x_Continue(self, s, env):
        raise _Continue()

    def x_Global(self, s, env):
        env.globals_decl.update(s.names)

    def x_Nonlocal(self, s, env):
        env.nonlocal_decl.update(s.names)

    def x_Assign(self, s, env):
        v = self.eval(s.value, env)
        for t in s.targets:
            self.assign(t, v, env)

    def x_AnnAssign(self, s, env):
        if s.value is not None:
            self.assign(s.target, self.eval(s.value, env), env)

    def x_AugAssign(self, s, env):
        cur = self.eval(_as_load(s.target), env)
        rhs = self.eval(s.value, env)
        v = self.binop(type(s.op).__name__, cur, rhs, inplace=True)
        self.assign(s.target, v, env)

    def x_If(self, s, env):
        if self.is_true(self.eval(s.test, env)):
            self.exec_block(s.body, env)
        else:
            self.exec_block(s.orelse, env)

    def x_Assert(self, s, env):
        if not self.is_true(self.eval(s.test, env)):
            self.throw(AssertionError)

    def x_Raise(self, s, env):
        if s.exc is None:
            cur = env_lookup_special(env, "$exc")
            if cur is None:
                self.throw(RuntimeError, "No active exception to reraise")
            raise PyRaise(cur)
        e = self.eval(s.exc, env)
        if isinstance(e, VNative) and isinstance(e.obj, type):
            e = self.instantiate(e.obj, [], {})
        if s.cause is not None:
            c = self.eval(s.cause, env)
            if isinstance(e, VObj):
                e.attrs["__cause__"] = c
        if not (isinstance(e, VObj) and issubclass(e.cls, BaseException)):
            self.throw(TypeError, "exceptions must derive from BaseException")
        raise PyRaise(e)

    def x_Try(self, s, env):
        try:
            try:
                self.exec_block(s.body, env)
            except PyRaise as pr:
                exc = pr.exc
                handled = False
                for h in s.handlers:
                    if h.type is None:
                        match = True
                    else:
                        tv = self.eval(h.type, env)
                        match = self.exc_matches(exc, tv)
                    if match:
                        handled = True
                        if h.name:
                            env.vars[h.name] = exc
                        saved = env.vars.get("$exc")
                        env.vars["$exc"] = exc
                        try:
                            self.exec_block(h.body, env)
                        finally:
                            if saved is None:
                                env.vars.pop("$exc", None)
                            else:
                                env.vars["$exc"] = saved
                            if h.name:
                                env.vars.pop(h.name, None)
                        break
                if not handled:
                    raise
            else:
                self.exec_block(s.orelse, env)
        finally:
            if s.finalbody:
                # note: python semantics - a raise/return in finally overrides; we simply run it
                self.exec_block(s.finalbody, env)

    def exc_matches(self, exc, tv):
        if isinstance(tv, VTuple):
            return any(self.exc_matches(exc, t) for t in tv.items)
        if isinstance(tv, VNative) and isinstance(tv.obj, type):
            return issubclass(exc.cls, tv.obj)
        raise Unsupported("except clause with non-class")

    def x_For(self, s, env):
        src = self.eval(s.iter, env)
        if isinstance(src, VNative) and src.obj is sys.stdin and "stdin_iter" in self.ghost:
            src = self.ghost["stdin_iter"]
        if isinstance(src, (VSymIter, VSymList)):
            return self.for_with_invariant(s, env, src)
        it = self.iterate(src)
        n = 0
        broke = False
        for item in it:
            n += 1
            if n > self.engine.loop_bound:
                raise Unsupported("loop bound exceeded")
            self.assign(s.target, item, env)
            try:
                self.exec_block(s.body, env)
            except _Break:
                broke = True
                break
            except _Continue:
                continue
        if not broke:
            self.exec_block(s.orelse, env)

    def for_with_invariant(self, s, env, src):
        """`for` over a sequence of unknown length: inductive scheme with the invariant supplied by the contract
        (run.ghost['loop_inv'], keyed by the line of the loop, or the single entry under key None).
        inv: holds(run, env) -> z3 Bool ; havoc(run, env) assigns arbitrary values satisfying the invariant to the
        variables the body modifies ; step(run, env) is called after the element is bound (ghost bookkeeping)."""
        invs = self.ghost.get("loop_inv") or {}
        inv = invs.get(s.lineno, invs.get(None))
        if inv is None:
            raise Unsupported("loop over a sequence of unknown length without an invariant")
        if s.orelse:
            raise Unsupported("for/else over a symbolic sequence")
        self.check(inv.holds(self, env), f"loop invariant holds on entry (line {s.lineno})")
        inv.havoc(self, env)
        x = src.next_elem(self)
        if x is not self.engine.models.SKIP:
            self.assign(s.target, x, env)
            if hasattr(inv, "step"):
                inv.step(self, env)
            try:
                self.exec_block(s.body, env)
            except _Break:
                raise Unsupported("break inside a loop over a symbolic sequence")
            except _Continue:
                pass
        self.check(inv.holds(self, env), f"loop invariant preserved by an arbitrary iteration (line {s.lineno})")
        inv.havoc(self, env)
        if hasattr(inv, "done"):
            inv.done(self, env)

    def x_While(self, s, env):
        n = 0
        broke = False
        while self.is_true(self.eval(s.test, env)):
            n += 1
            if n > self.engine.loop_bound:
                raise Unsupported("while loop bound exceeded")
            try:
                self.exec_block(s.body, env)
            except _Break:
                broke = True
                break
            except _Continue:
                continue
        if not broke:
            self.exec_block(s.orelse, env)

    def x_With(self, s, env):
        if len(s.items) != 1:
            raise Unsupported("multi-item with")
        item = s.items[0]
        mgr = self.eval(item.context_expr, env)
        enter = self.getattr(mgr, "__enter__")
        exit_ = self.getattr(mgr, "__exit__")
        v = self.call(enter, [])
        if item.optional_vars is not None:
            self.assign(item.optional_vars, v, env)
        try:
            self.exec_block(s.body, env)
        except PyRaise as pr:
            r = self.call(exit_, [VNative(pr.exc.cls), pr.exc, NONE])
            if self.is_true(r):
                return
            raise
        except (_Return, _Break, _Continue):
            self.call(exit_, [NONE, NONE, NONE])
            raise
        else:
            self.call(exit_, [NONE, NONE, NONE])

    def x_FunctionDef(self, s, env):
        f = self.make_func(s, env)
        for d in reversed(s.decorator_list):
            f = self.call(self.eval(d, env), [f])
        env.vars[s.name] = f

    def x_Import(self, s, env):
        import importlib
        for a in s.names:
            mod = importlib.import_module(a.name)
            if a.asname:
                env.vars[a.asname] = VNative(mod)
            else:
                env.vars[a.name.split(".")[0]] = VNative(sys.modules[a.name.split(".")[0]])

    def x_ImportFrom(self, s, env):
        import importlib
        mod = importlib.import_module(s.module)
        for a in s.names:
            env.vars[a.asname or a.name] = lift(getattr(mod, a.name))

    def x_Delete(self, s, env):
        for t in s.targets:
            if isinstance(t, ast.Name):
                env.vars.pop(t.id, None)
            else:
                raise Unsupported("del of non-name")

    def make_func(self, node, env):
        vf = VFunc(node, env, env.func.module if env.func else "?", name=getattr(node, "name", "<lambda>"),
                   qualname=(env.func.qualname + ".<locals>." if env.func else "") + getattr(node, "name", "<lambda>"))
        a = node.args
        d = [self.eval(x, env) for x in a.defaults]
        kd = {p.arg: self.eval(x, env) for p, x in zip(a.kwonlyargs, a.kw_defaults) if x is not None}
        vf_defaults[id(vf)] = (d, kd, vf)
        return vf

    # ------------------------------------------------------------ assignment
    def assign(self, t, v, env):
        if isinstance(t, ast.Name):
            if self._declared_global(env, t.id):
                self.ghost.setdefault("writes", []).append(("global", t.id, v))
                self.global_overlay[(id(env.globals), t.id)] = v
                return
            if t.id in env.nonlocal_decl:
                e = env.parent
                while e is not None:
                    if t.id in e.vars:
                        e.vars[t.id] = v
                        return
                    e = e.parent
                raise Unsupported("nonlocal target not found")
            env.vars[t.id] = v
        elif isinstance(t, (ast.Tuple, ast.List)):
            items = list(self.iterate(v, for_unpack=True))
            stars = [i for i, e in enumerate(t.elts) if isinstance(e, ast.Starred)]
            if not stars:
                if len(items) != len(t.elts):
                    self.throw(ValueError, "unpack arity mismatch")
                for e, x in zip(t.elts, items):
                    self.assign(e, x, env)
            else:
                si = stars[0]
                after = len(t.elts) - si - 1
                if len(items) < len(t.elts) - 1:
                    self.throw(ValueError, "not enough values to unpack")
                for e, x in zip(t.elts[:si], items[:si]):
                    self.assign(e, x, env)
                mid = items[si:len(items) - after]
                self.assign(t.elts[si].value, VList(list, mid), env)
                for e, x in zip(t.elts[si + 1:], items[len(items) - after:]):
                    self.assign(e, x, env)
        elif isinstance(t, ast.Attribute):
            self.setattr(self.eval(t.value, env), t.attr, v)
        elif isinstance(t, ast.Subscript):
            obj = self.eval(t.value, env)
            idx = self.eval_index(t.slice, env)
            self.setitem(obj, idx, v)
        else:
            raise Unsupported(f"assignment target {type(t).__name__}")

    def _declared_global(self, env, name):
        x = env
        while x is not None:
            if name in x.globals_decl:
                return True
            if x.parent is None or x.parent.func is not x.func:
                break
            x = x.parent
        return False

    # ------------------------------------------------------------ expressions
    def eval(self, e, env):
        m = getattr(self, "e_" + type(e).__name__, None)
        if m is None:
            raise Unsupported(f"expression {type(e).__name__}")
        return m(e, env)

    def e_Constant(self, e, env):
        v = e.value
        if v is Ellipsis:
            return VNative(Ellipsis)
        return lift(v)

    def lookup(self, name, env):
        x = env
        while x is not None:
            if name in x.vars:
                return x.vars[name]
            x = x.parent
        g = env.globals
        if g is not None and (id(g), name) in self.global_overlay:
            return self.global_overlay[(id(g), name)]
        if g is not None and name in g:
            obj = g[name]
            if type(obj) in (dict, list) and obj:
                # a mutable module-level object: one shared symbolic image per path, so that writes to it are visible
                key = id(obj)
                if key not in self.shared:
                    self.shared[key] = lift(obj)
                    self.shared_names[id(self.shared[key])] = name
                return self.shared[key]
            return lift(obj)
        if hasattr(builtins, name):
            return VNative(getattr(builtins, name))
        self.throw(NameError, f"name '{name}' is not defined")

    def e_Name(self, e, env):
        return self.lookup(e.id, env)

    def e_Attribute(self, e, env):
        return self.getattr(self.eval(e.value, env), e.attr)

    def e_Tuple(self, e, env):
        return VTuple(self.eval_seq(e.elts, env))

    def e_List(self, e, env):
        return VList(list, self.eval_seq(e.elts, env))

    def e_Set(self, e, env):
        return VSet(set, self.eval_seq(e.elts, env))

    def eval_seq(self, elts, env):
        out = []
        for x in elts:
            if isinstance(x, ast.Starred):
                out.extend(self.iterate(self.eval(x.value, env)))
            else:
                out.append(self.eval(x, env))
        return out

    def e_Dict(self, e, env):
        d = VDict(dict, [])
        for k, v in zip(e.keys, e.values):
            if k is None:
                src = self.eval(v, env)
                if not isinstance(src, VDict):
                    raise Unsupported("** of non-dict")
                for kk, vv in src.pairs:
                    self.dict_set(d, kk, vv)
            else:
                kk = self.eval(k, env)
                vv = self.eval(v, env)
                self.dict_set(d, kk, vv)
        return d

    def e_Lambda(self, e, env):
        return self.make_func(e, env)

    def e_IfExp(self, e, env):
        if self.is_true(self.eval(e.test, env)):
            return self.eval(e.body, env)
        return self.eval(e.orelse, env)

    def e_BoolOp(self, e, env):
        is_and = isinstance(e.op, ast.And)
        v = None
        for x in e.values:
            v = self.eval(x, env)
            t = self.is_true(v)
            if is_and and not t:
                return v
            if not is_and and t:
                return v
        return v

    def e_UnaryOp(self, e, env):
        v = self.eval(e.operand, env)
        if isinstance(e.op, ast.Not):
            t = self.truth(v)
            return mk_bool(self, (not t) if isinstance(t, bool) else z3.Not(t))
        name = {"USub": "__neg__", "UAdd": "__pos__", "Invert": "__invert__"}[type(e.op).__name__]
        return self.unop(name, v)

    def unop(self, name, v):
        hit = self.find_attr(cls_of(v), name)
        if hit is None:
            self.throw(TypeError, f"bad operand type for unary {name}: '{cls_of(v).__name__}'")
        return self.call(self.bind_raw(hit[0], name, hit[1], v, cls_of(v)), [])

    def e_BinOp(self, e, env):
        a = self.eval(e.left, env)
        b = self.eval(e.right, env)
        return self.binop(type(e.op).__name__, a, b)

    BINOPS = {"Add": "add", "Sub": "sub", "Mult": "mul", "Div": "truediv", "FloorDiv": "floordiv", "Mod": "mod",
              "Pow": "pow", "BitOr": "or", "BitAnd": "and", "BitXor": "xor", "LShift": "lshift", "RShift": "rshift",
              "MatMult": "matmul"}
    SEQ_TYPES = (str, bytes, list, tuple, bytearray)

    def binop(self, opname, a, b, inplace=False):
        op = self.BINOPS[opname]
        ta, tb = cls_of(a), cls_of(b)
        if inplace:
            hit = self.find_attr(ta, f"__i{op}__")
            if hit is not None:
                r = self.call(self.bind_raw(hit[0], f"__i{op}__", hit[1], a, ta), [b])
                if r is not NOTIMPL and not (isinstance(r, VNative) and r.obj is NotImplemented):
                    return r
        l, r = f"__{op}__", f"__r{op}__"
        la = self.find_attr(ta, l)
        rb = self.find_attr(tb, r) if tb is not ta else None
        tried_r = False

        def is_ni(x):
            return isinstance(x, VNative) and x.obj is NotImplemented

        # sequence slots (sq_concat / sq_repeat) are tried after every number slot
        seq_left = la is not None and la[0] in self.SEQ_TYPES and op in ("add", "mul")
        if rb is not None and tb is not ta and issubclass(tb, ta):
            ra = self.find_attr(ta, r)
            if ra is None or ra[1] is not rb[1]:
                tried_r = True
                x = self.call(self.bind_raw(rb[0], r, rb[1], b, tb), [a])
                if not is_ni(x):
                    return x
        if seq_left and rb is not None and not tried_r:
            tried_r = True
            x = self.call(self.bind_raw(rb[0], r, rb[1], b, tb), [a])
            if not is_ni(x):
                return x
        if la is not None:
            x = self.call(self.bind_raw(la[0], l, la[1], a, ta), [b])
            if not is_ni(x):
                return x
        if rb is not None and not tried_r:
            x = self.call(self.bind_raw(rb[0], r, rb[1], b, tb), [a])
            if not is_ni(x):
                return x
        self.throw(TypeError, f"unsupported operand type(s) for {op}: '{ta.__name__}' and '{tb.__name__}'")

    CMP = {"Eq": ("__eq__", "__eq__"), "NotEq": ("__ne__", "__ne__"), "Lt": ("__lt__", "__gt__"),
           "LtE": ("__le__", "__ge__"), "Gt": ("__gt__", "__lt__"), "GtE": ("__ge__", "__le__")}

    def richcmp(self, opname, a, b):
        l, r = self.CMP[opname]
        ta, tb = cls_of(a), cls_of(b)

        def is_ni(x):
            return isinstance(x, VNative) and x.obj is NotImplemented

        tried_r = False
        if tb is not ta and issubclass(tb, ta):
            hit = self.find_attr(tb, r)
            if hit is not None:
                tried_r = True
                x = self.call(self.bind_raw(hit[0], r, hit[1], b, tb), [a])
                if not is_ni(x):
                    return x
        hit = self.find_attr(ta, l)
        if hit is not None:
            x = self.call(self.bind_raw(hit[0], l, hit[1], a, ta), [b])
            if not is_ni(x):
                return x
        if not tried_r:
            hit = self.find_attr(tb, r)
            if hit is not None:
                x = self.call(self.bind_raw(hit[0], r, hit[1], b, tb), [a])
                if not is_ni(x):
                    return x
        if opname == "Eq":
            return mk_bool(self, self.identical(a, b))
        if opname == "NotEq":
            i = self.identical(a, b)
            return mk_bool(self, (not i) if isinstance(i, bool) else z3.Not(i))
        self.throw(TypeError, f"'{opname}' not supported between instances of '{ta.__name__}' and '{tb.__name__}'")

    def identical(self, a, b):
        if a is b:
            return True
        if isinstance(a, VNone) or isinstance(b, VNone):
            return isinstance(a, VNone) and isinstance(b, VNone)
        if isinstance(a, VNative) and isinstance(b, VNative):
            return a.obj is b.obj
        if type(a) is not type(b):
            return False
        if isinstance(a, VInt) and a.cls is bool and b.cls is bool:
            return a.t == b.t
        if isinstance(a, (VObj, VList, VDict, VSet)):
            return False   # distinct wrappers are distinct heap objects
        if isinstance(a, VOpaque):
            raise Unsupported("identity of opaque values")
        # two immutable values built separately: identity is an implementation detail
        self.note("identity of distinct immutable values taken as False")
        return False

    def e_Compare(self, e, env):
        left = self.eval(e.left, env)
        result = None
        for op, rhs_e in zip(e.ops, e.comparators):
            right = self.eval(rhs_e, env)
            r = self.compare(type(op).__name__, left, right)
            if len(e.ops) == 1:
                return r
            if not self.is_true(r):
                return r
            result = r
            left = right
        return result

    def compare(self, opname, a, b):
        if opname == "Is":
            return mk_bool(self, self.identical(a, b))
        if opname == "IsNot":
            i = self.identical(a, b)
            return mk_bool(self, (not i) if isinstance(i, bool) else z3.Not(i))
        if opname == "In":
            return self.contains(b, a)
        if opname == "NotIn":
            t = self.truth(self.contains(b, a))
            return mk_bool(self, (not t) if isinstance(t, bool) else z3.Not(t))
        return self.richcmp(opname, a, b)

    def contains(self, container, item):
        hit = self.find_attr(cls_of(container), "__contains__")
        if hit is not None:
            r = self.call(self.bind_raw(hit[0], "__contains__", hit[1], container, cls_of(container)), [item])
            return mk_bool(self, self.truth(r))
        for x in self.iterate(container):
            if self.identical(x, item) is True or self.is_true(self.richcmp("Eq", x, item)):
                return mk_bool(self, True)
        return mk_bool(self, False)

    def e_Call(self, e, env):
        if isinstance(e.func, ast.Name) and e.func.id == "super" and not e.args and not e.keywords:
            return self.zero_arg_super(env)
        if isinstance(e.func, ast.Name) and e.func.id == "super" and len(e.args) == 2 and not e.keywords:
            k = self.eval(e.args[0], env)
            o = self.eval(e.args[1], env)
            if isinstance(k, VNative) and isinstance(k.obj, type):
                if isinstance(o, VNative) and isinstance(o.obj, type):
                    return VSuper(k.obj, None, o.obj)
                return VSuper(k.obj, o, cls_of(o))
        if isinstance(e.func, ast.Name) and e.func.id == "cast" and len(e.args) == 2:
            f = self.lookup("cast", env)
            import typing
            if isinstance(f, VNative) and f.obj is typing.cast:
                return self.eval(e.args[1], env)
        f = self.eval(e.func, env)
        args = self.eval_seq(e.args, env)
        kwargs = {}
        for k in e.keywords:
            if k.arg is None:
                d = self.eval(k.value, env)
                if not isinstance(d, VDict):
                    raise Unsupported("** of non-dict")
                for kk, vv in d.pairs:
                    kwargs[conc(kk)] = vv
            else:
                kwargs[k.arg] = self.eval(k.value, env)
        return self.call(f, args, kwargs)

    def zero_arg_super(self, env):
        x = env
        while x is not None and x.func is None:
            x = x.parent
        # find the function frame env (the one holding parameters)
        fenv = env
        while fenv is not None and fenv.parent is not None and fenv.parent.func is fenv.func:
            fenv = fenv.parent
        func = fenv.func
        klass = None
        e = fenv
        while e is not None:
            if "__class__" in e.vars:
                klass = e.vars["__class__"]
                break
            e = e.parent
        if klass is None:
            raise Unsupported("super() without __class__ cell")
        a = func.node.args
        params = [p.arg for p in a.posonlyargs] + [p.arg for p in a.args]
        first = fenv.vars[params[0]]
        if isinstance(first, VNative) and isinstance(first.obj, type):
            return VSuper(klass.obj, None, first.obj)
        return VSuper(klass.obj, first, cls_of(first))

    def e_JoinedStr(self, e, env):
        parts = []
        concrete = True
        raw = []
        for p in e.values:
            if isinstance(p, ast.Constant):
                parts.append(p.value)
                raw.append(p.value)
            else:
                v = self.eval(p.value, env)
                raw.append(v)
                if type(v).__name__ == "VText":
                    concrete = False
                    continue
                try:
                    if not is_concrete(v):
                        raise NotConcrete
                    o = conc(v)
                    if p.conversion == 114:
                        s = repr(o)
                    elif p.conversion == 115:
                        s = str(o)
                    else:
                        s = format(o, "")
                    parts.append(s)
                except Exception:
                    concrete = False
        if concrete:
            return VStr(str, "".join(parts))
        if self.ghost.get("fstring_exact") and all(isinstance(x, str) or (isinstance(x, VStr) and x.cls in self.ghost["fstring_exact"]) for x in raw) \
                and all(isinstance(p, ast.Constant) or (p.conversion in (-1, 115) and p.format_spec is None) for p in e.values):
            # f"{s}" of an exact str (or a listed str subclass that inherits str.__format__/__str__) is s: exact concatenation
            terms = [z3.StringVal(x) if isinstance(x, str) else (x.t if not isinstance(x.t, str) else z3.StringVal(x.t)) for x in raw]
            return VStr(str, terms[0] if len(terms) == 1 else z3.Concat(*terms))
        if any(type(x).__name__ == "VText" for x in raw):
            h = self.ghost.get("text_fstring")
            if h is None:
                raise Unsupported("f-string over abstract text without a text model")
            return h(self, raw)
        self.note("f-string rendering of symbolic values is abstracted to an unconstrained str and assumed not to raise")
        out = VStr(str, self.fresh("hv_fstr", z3.StringSort()))
        self.ghost.setdefault("fstrings", []).append((out, raw))
        return out

    def e_Subscript(self, e, env):
        obj = self.eval(e.value, env)
        idx = self.eval_index(e.slice, env)
        return self.getitem(obj, idx)

    def eval_index(self, s, env):
        if isinstance(s, ast.Slice):
            return VSlice(self.eval(s.lower, env) if s.lower else NONE,
                          self.eval(s.upper, env) if s.upper else NONE,
                          self.eval(s.step, env) if s.step else NONE)
        return self.eval(s, env)

    def getitem(self, obj, idx):
        if isinstance(obj, VNative) and type(obj.obj) is dict:
            # a live (shared) dict, e.g. a module namespace: reads see this path's overlay first
            k = conc(idx)
            ov = self.native_overlay.get(id(obj.obj), {})
            if k in ov:
                return ov[k]
            if k in obj.obj:
                return lift(obj.obj[k])
            raise PyRaise(VObj(KeyError, {"args": VTuple([idx])}))
        if isinstance(obj, VNative) and type(obj.obj).__module__ in ("typing", "types") and not isinstance(obj.obj, (dict, list, tuple)):
            return obj     # typing construct subscripted at run time (Callable[...], Tuple[...]): a type expression
        hit = self.find_attr(cls_of(obj), "__getitem__")
        if hit is None:
            if isinstance(obj, VNative) and isinstance(obj.obj, type):
                if hasattr(obj.obj, "__class_getitem__"):
                    return obj   # generic alias like List[int]
                self.throw(TypeError, f"type '{obj.obj.__name__}' is not subscriptable")
            self.throw(TypeError, f"'{cls_of(obj).__name__}' object is not subscriptable")
        return self.call(self.bind_raw(hit[0], "__getitem__", hit[1], obj, cls_of(obj)), [idx])

    def setitem(self, obj, idx, v):
        if isinstance(obj, VNative) and type(obj.obj) is dict:
            # write to a live shared dict: recorded (frame obligations), kept in an overlay, never applied to the real object
            self.heap_writes.append((obj, f"setitem:{conc(idx)!r}"))
            self.native_overlay.setdefault(id(obj.obj), {})[conc(idx)] = v
            return
        hit = self.find_attr(cls_of(obj), "__setitem__")
        if hit is None:
            self.throw(TypeError, f"'{cls_of(obj).__name__}' object does not support item assignment")
        self.call(self.bind_raw(hit[0], "__setitem__", hit[1], obj, cls_of(obj)), [idx, v])

    def _yield_sink(self, env):
        x = env
        while x is not None:
            if "$yields" in x.vars:
                return x.vars["$yields"]
            x = x.parent
        raise Unsupported("yield outside a generator frame")

    def e_Yield(self, e, env):
        self._yield_sink(env).append(self.eval(e.value, env) if e.value is not None else NONE)
        return NONE

    def e_YieldFrom(self, e, env):
        self._yield_sink(env).extend(list(self.iterate(self.eval(e.value, env))))
        return NONE

    def e_Starred(self, e, env):
        raise Unsupported("starred expression")

    def e_NamedExpr(self, e, env):
        v = self.eval(e.value, env)
        self.assign(e.target, v, env)
        return v

    # comprehensions
    def _comp(self, e, env, emit, first=None):
        def rec(gi, cenv):
            if gi == len(e.generators):
                yield emit(cenv)
                return
            g = e.generators[gi]
            src = first if (gi == 0 and first is not None) else self.eval(g.iter, cenv if gi else env)
            for item in self.iterate(src):
                self.assign(g.target, item, cenv)
                if all(self.is_true(self.eval(c, cenv)) for c in g.ifs):
                    yield from rec(gi + 1, cenv)
        return rec(0, env.child())

    def e_ListComp(self, e, env):
        return VList(list, list(self._comp(e, env, lambda ce: self.eval(e.elt, ce))))

    def e_SetComp(self, e, env):
        return VSet(set, list(self._comp(e, env, lambda ce: self.eval(e.elt, ce))))

    def e_GeneratorExp(self, e, env):
        g0 = e.generators[0]
        src = self.eval(g0.iter, env)          # the outermost iterable is evaluated at creation time
        if isinstance(src, (VSymIter, VSymList)):
            if len(e.generators) != 1:
                raise Unsupported("nested generator expression over a symbolic sequence")

            def nxt(run, src=src):
                cenv = env.child()
                x = src.next_elem(run)
                if x is run.engine.models.SKIP:
                    return x
                run.assign(g0.target, x, cenv)
                for c in g0.ifs:
                    if not run.is_true(run.eval(c, cenv)):
                        return run.engine.models.SKIP
                return run.eval(e.elt, cenv)
            out = VSymIter(nxt, "generator" if not g0.ifs else "filtered-generator", source=src if not g0.ifs else None)
            if not g0.ifs and isinstance(src, VSymList):
                self.engine.models.b_len(self, src)
            return out
        return VIter(self._comp(e, env, lambda ce: self.eval(e.elt, ce), first=src), "generator")

    def e_DictComp(self, e, env):
        d = VDict(dict, [])
        for k, v in self._comp(e, env, lambda ce: (self.eval(e.key, ce), self.eval(e.value, ce))):
            self.dict_set(d, k, v)
        return d

    # ------------------------------------------------------------ iteration / dict helpers
    def iterate(self, v, for_unpack=False):
        if isinstance(v, (VList, VTuple, VSet)):
            return iter(list(v.items)) if not isinstance(v, VList) else _live_iter(v)
        if isinstance(v, VIter):
            return v.it
        if isinstance(v, (VSymIter, VSymList)):
            raise Unsupported("iteration over a sequence of unknown length without an invariant")
        if isinstance(v, VDict):
            return iter([k for k, _ in v.pairs])
        if isinstance(v, VStr):
            if z3.is_string_value(v.t):
                return iter([VStr(str, c) for c in zstr_to_py(v.t)])
            raise Unsupported("iteration over symbolic string")
        if isinstance(v, VBytes):
            b = zbytes_to_py(z3.simplify(v.t))
            if b is None:
                if self.ghost.get("utf8_fn"):
                    return iter([self.engine.models.VByteRun(v.t)])
                raise Unsupported("iteration over symbolic bytes")
            return iter([VInt(int, x) for x in b])
        if isinstance(v, VObj):
            hit = self.find_attr(v.cls, "__iter__")
            if hit is not None:
                r = self.call(self.bind_raw(hit[0], "__iter__", hit[1], v, v.cls), [])
                return self.iterate(r)
        if isinstance(v, VNative):
            m = self.engine.models.native_iter(self, v)
            if m is not None:
                return m
        if isinstance(v, (VInt, VFloat, VNone)) or (isinstance(v, VObj)):
            self.throw(TypeError, f"'{cls_of(v).__name__}' object is not iterable")
        raise Unsupported(f"iteration over {v!r}")

    def key_eq(self, a, b):
        """Equality of dict keys: concrete -> native; else structural on payloads (hash/eq consistency assumed)."""
        if is_concrete(a) and is_concrete(b):
            try:
                ca, cb = conc(a), conc(b)
                try:
                    return hash(ca) == hash(cb) and bool(ca == cb)
                except TypeError:
                    raise Unsupported("key comparison raises")
            except NotConcrete:
                pass
        if type(a) is type(b) and isinstance(a, (VInt, VStr)) and (a.cls is b.cls or
                                                                    (issubclass(a.cls, (int, str)) and issubclass(b.cls, (int, str)))):
            if isinstance(a, VInt) != isinstance(b, VInt):
                return False
            # hash/eq consistency of builtin payloads: equal keys iff equal payloads (bool/int share a hash domain)
            return self.branch(a.t == b.t)
        if isinstance(a, (VInt, VStr, VNone)) and isinstance(b, (VInt, VStr, VNone)) and type(a) is not type(b):
            return False
        raise Unsupported("symbolic dict key")

    def dict_lookup(self, d, k):
        for kk, vv in d.pairs:
            if kk is k or self.key_eq(kk, k):
                return vv
        return None

    def dict_set(self, d, k, v):
        self.heap_writes.append((d, "setitem"))
        for p in d.pairs:
            if p[0] is k or self.key_eq(p[0], k):
                p[1] = v
                return
        d.pairs.append([k, v])


def _live_iter(vl):
    i = 0
    while i < len(vl.items):
        yield vl.items[i]
        i += 1


def _as_load(t):
    import copy
    t2 = copy.copy(t)
    t2.ctx = ast.Load()
    return t2


def env_lookup_special(env, name):
    x = env
    while x is not None:
        if name in x.vars:
            return x.vars[name]
        x = x.parent
    return None


def _is_generator(node):
    for n in ast.walk(node):
        if isinstance(n, (ast.Yield, ast.YieldFrom)):
            # ignore nested function definitions
            return _yield_in_own_body(node)
    return False


def _yield_in_own_body(node):
    stack = list(node.body)
    while stack:
        n = stack.pop()
        if isinstance(n, (ast.Yield, ast.YieldFrom)):
            return True
        if isinstance(n, (ast.FunctionDef, ast.Lambda, ast.AsyncFunctionDef)):
            continue
        stack.extend(ast.iter_child_nodes(n))
    return False
