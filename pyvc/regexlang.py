"""Python `re` pattern -> z3 regular expression (the regular LANGUAGE of the pattern: lazy/greedy and group
structure are irrelevant for membership / inclusion obligations).  Uses the interpreter's own regex parser."""
import re
import sys

import z3

try:
    import re._parser as sre_parse
    import re._constants as sre_constants
except ImportError:  # pragma: no cover
    import sre_parse
    import sre_constants

RS = z3.ReSort(z3.StringSort())
MAXCP = 0x2FFFF      # z3's character sort upper bound


class RegexUnsupported(Exception):
    pass


def anychar():
    return z3.AllChar(RS)


def ch(c):
    if c > MAXCP:
        raise RegexUnsupported("code point above z3's character range")
    return z3.Re(z3.StringVal(chr(c))) if c < 0x10000 and chr(c).isprintable() and chr(c) not in '\\"' else z3.Re(z3.Unit(z3.CharVal(c)))


def rng(lo, hi):
    hi = min(hi, MAXCP)
    return z3.Range(z3.Unit(z3.CharVal(lo)), z3.Unit(z3.CharVal(hi)))


def union(items):
    items = list(items)
    if not items:
        return z3.Empty(RS)
    return items[0] if len(items) == 1 else z3.Union(*items)


def concat(items):
    items = list(items)
    if not items:
        return z3.Re(z3.StringVal(""))
    return items[0] if len(items) == 1 else z3.Concat(*items)


CATEGORIES = {
    sre_constants.CATEGORY_DIGIT: lambda: rng(0x30, 0x39),          # ASCII digits (the patterns here are matched against ASCII digits;
    sre_constants.CATEGORY_SPACE: lambda: union([ch(c) for c in (9, 10, 11, 12, 13, 32)]),   # Unicode \d / \s supersets are noted by the caller)
    sre_constants.CATEGORY_WORD: lambda: union([rng(0x30, 0x39), rng(0x41, 0x5A), rng(0x61, 0x7A), ch(0x5F)]),
}


def charset(items):
    negate = False
    parts = []
    for op, av in items:
        if op is sre_constants.NEGATE:
            negate = True
        elif op is sre_constants.LITERAL:
            parts.append(ch(av))
        elif op is sre_constants.RANGE:
            parts.append(rng(av[0], av[1]))
        elif op is sre_constants.CATEGORY:
            if av not in CATEGORIES:
                raise RegexUnsupported(f"category {av}")
            parts.append(CATEGORIES[av]())
        else:
            raise RegexUnsupported(f"charset item {op}")
    r = union(parts)
    return z3.Intersect(anychar(), z3.Complement(r)) if negate else r


def tr(parsed, dotall=False):
    out = []
    for op, av in parsed:
        if op is sre_constants.LITERAL:
            out.append(ch(av))
        elif op is sre_constants.NOT_LITERAL:
            out.append(z3.Intersect(anychar(), z3.Complement(ch(av))))
        elif op is sre_constants.ANY:
            out.append(anychar() if dotall else z3.Intersect(anychar(), z3.Complement(ch(10))))
        elif op is sre_constants.IN:
            out.append(charset(av))
        elif op is sre_constants.BRANCH:
            out.append(union(tr(b, dotall) for b in av[1]))
        elif op is sre_constants.SUBPATTERN:
            out.append(tr(av[3], dotall))
        elif op in (sre_constants.MAX_REPEAT, sre_constants.MIN_REPEAT):
            lo, hi, sub = av
            r = tr(sub, dotall)
            if hi is sre_constants.MAXREPEAT:
                rep = z3.Star(r) if lo == 0 else (z3.Plus(r) if lo == 1 else z3.Concat(z3.Loop(r, lo, lo), z3.Star(r)))
            else:
                rep = z3.Option(r) if (lo, hi) == (0, 1) else z3.Loop(r, lo, hi)
            out.append(rep)
        elif op is sre_constants.AT:
            continue        # anchors: the obligations are about whole-string membership
        else:
            raise RegexUnsupported(f"regex construct {op}")
    return concat(out)


def to_z3(pattern, flags=0):
    if isinstance(pattern, re.Pattern):
        flags |= pattern.flags
        pattern = pattern.pattern
    parsed = sre_parse.parse(pattern, flags)
    return tr(parsed, bool((flags | parsed.state.flags) & re.DOTALL))


def alternatives(pattern, flags=0):
    """top-level alternatives of a pattern as (source-ish description, parsed sub-pattern, (min width, max width))"""
    if isinstance(pattern, re.Pattern):
        flags |= pattern.flags
        pattern = pattern.pattern
    parsed = sre_parse.parse(pattern, flags)
    items = list(parsed)
    if len(items) == 1 and items[0][0] is sre_constants.BRANCH:
        branches = items[0][1][1]
    else:
        branches = [parsed]
    return [(b, b.getwidth()) for b in branches]


def included(sub, sup, timeout_ms=20000):
    """L(sub) subset of L(sup)?  -> ('discharged', None) | ('refuted', witness) | ('undecided', None)"""
    s = z3.Solver()
    s.set("timeout", timeout_ms)
    x = z3.String("w")
    s.add(z3.InRe(x, sub), z3.Not(z3.InRe(x, sup)))
    r = s.check()
    if r == z3.unsat:
        return "discharged", None
    if r == z3.sat:
        from .symexec import zstr_to_py
        return "refuted", zstr_to_py(s.model().eval(x, model_completion=True))
    return "undecided", None
