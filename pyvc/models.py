"""Models of CPython builtins used by the repository code (the *assumed* semantics of the
interpreter, see DESIGN.md section 3).  Each model works on symbolic payloads; with fully
concrete arguments most fall back to calling the real builtin (constant folding)."""
from __future__ import annotations

import builtins
import functools
import logging
import math
import operator
import typing
import types

import z3

from .values import *  # noqa
from .values import SV, VInt, VFloat, VStr, VBytes, VNone, NONE, VNative, NOTIMPL, VList, VTuple, VDict, VSet, \
    VObj, VFunc, VModel, VBound, VSuper, VIter, VOpaque, VSymIter, VSymList, VZSeq, VZSet, FP, RNE, BYTES, is_concrete

METHODS = {}   # (class, name) -> fn(run, self, *args, **kw)
CALLS = {}     # id(real callable) -> (obj, fn(run, *args, **kw))


def method(cls, *names):
    def deco(fn):
        for n in names:
            METHODS[(cls, n)] = fn
        return fn
    return deco


def callm(*objs):
    def deco(fn):
        for o in objs:
            CALLS[id(o)] = (o, fn)
        return fn
    return deco


class _Skip:
    def __repr__(self):
        return "SKIP"


SKIP = _Skip()


def method_model(K, name):
    m = METHODS.get((K, name))
    if m is not None:
        return m
    if isinstance(K, type) and issubclass(K, BaseException):
        return METHODS.get((BaseException, name))
    return None


def call_model(obj):
    hit = CALLS.get(id(obj))
    if hit is not None and hit[0] is obj:
        return hit[1]
    return None


def _se():
    from . import symexec
    return symexec


def Unsupported(msg):
    return _se().Unsupported(msg)


def mk_bool(run, b):
    return _se().mk_bool(run, b)


def is_ni(x):
    return isinstance(x, VNative) and x.obj is NotImplemented


# ====================================================================== object
def object_new(run, clsv, *args, **kw):
    cls = clsv.obj
    if issubclass(cls, BaseException):
        return VObj(cls, {"args": VTuple(list(args))})
    if issubclass(cls, (int, float, str, bytes, list, dict, tuple, set)):
        raise Unsupported(f"object.__new__ for builtin subclass {cls.__name__}")
    return VObj(cls, {})


METHODS[(object, "__new__")] = object_new


@method(object, "__init__")
def object_init(run, self, *args, **kw):
    return NONE


@method(object, "__init_subclass__")
def object_init_subclass(run, *a, **k):
    return NONE


@method(object, "__eq__")
def object_eq(run, self, other):
    i = run.identical(self, other)
    if i is True:
        return mk_bool(run, True)
    if i is False:
        return NOTIMPL
    raise Unsupported("symbolic identity in object.__eq__")


@method(object, "__ne__")
def object_ne(run, self, other):
    hit = run.find_attr(self.cls, "__eq__")
    r = run.call(run.bind_raw(hit[0], "__eq__", hit[1], self, self.cls), [other])
    if is_ni(r):
        return NOTIMPL
    t = run.truth(r)
    return mk_bool(run, (not t) if isinstance(t, bool) else z3.Not(t))


@method(object, "__lt__", "__le__", "__gt__", "__ge__")
def object_ord(run, self, other):
    return NOTIMPL


@method(object, "__hash__")
def object_hash(run, self):
    return VInt(int, run.fresh_int("hv_hash"))


@method(object, "__repr__")
def object_repr(run, self):
    return VStr(str, run.fresh("hv_repr", z3.StringSort()))


@method(object, "__str__")
def object_str(run, self):
    # object.__str__ delegates to type(self).__repr__
    hit = run.find_attr(self.cls, "__repr__")
    return run.call(run.bind_raw(hit[0], "__repr__", hit[1], self, self.cls), [])


@method(object, "__class__")
def object_class(run, self):
    return VNative(self.cls)


@method(object, "__bool__")
def object_bool(run, self):
    return mk_bool(run, True)


# ====================================================================== exceptions
@method(BaseException, "__new__")
def exc_new(run, clsv, *args, **kw):
    return VObj(clsv.obj, {"args": VTuple(list(args))})


@method(BaseException, "__init__")
def exc_init(run, self, *args, **kw):
    self.attrs["args"] = VTuple(list(args))
    return NONE


@method(BaseException, "with_traceback")
def exc_with_tb(run, self, tb):
    return self


@method(BaseException, "args")
def exc_args(run, self):
    return self.attrs.get("args", VTuple([]))


@method(BaseException, "__cause__", "__context__", "__traceback__")
def exc_cause(run, self):
    return NONE


@method(type, "__repr__")
def type_repr(run, self):
    if isinstance(self, VNative) and isinstance(self.obj, type):
        return VStr(str, repr(self.obj))
    raise Unsupported("repr of a symbolic class")


@method(BaseException, "__repr__", "__str__")
def exc_repr(run, self):
    return VStr(str, run.fresh("hv_excstr", z3.StringSort()))


# ====================================================================== int
def _int_t(v):
    return v.t if isinstance(v, VInt) else None


def _as_long(t):
    t = z3.simplify(t)
    return t.as_long() if z3.is_int_value(t) else None


def floordivmod(run, a, b):
    """Floor quotient/remainder of mathematical ints a, b (z3 terms) per CPython; raises on b == 0."""
    ca, cb = _as_long(a), _as_long(b)
    if cb is not None and cb == 0:
        run.throw(ZeroDivisionError, "integer division or modulo by zero")
    if ca is not None and cb is not None:
        return z3.IntVal(ca // cb), z3.IntVal(ca % cb)
    if run.branch(b == 0):
        run.throw(ZeroDivisionError, "integer division or modulo by zero")
    q = run.fresh_int("q")
    r = run.fresh_int("r")
    if run.branch(b > 0):
        run.assume(z3.And(a == b * q + r, 0 <= r, r < b))
    else:
        run.assume(z3.And(a == b * q + r, b < r, r <= 0))
    return q, r


def _int_binop(name, fn, reflected=False):
    def m(run, self, other):
        if not isinstance(other, VInt):
            return NOTIMPL
        a, b = (other.t, self.t) if reflected else (self.t, other.t)
        return fn(run, a, b)
    m.__name__ = name
    return m


METHODS[(int, "__add__")] = _int_binop("add", lambda run, a, b: VInt(int, a + b))
METHODS[(int, "__radd__")] = _int_binop("radd", lambda run, a, b: VInt(int, a + b), True)
METHODS[(int, "__sub__")] = _int_binop("sub", lambda run, a, b: VInt(int, a - b))
METHODS[(int, "__rsub__")] = _int_binop("rsub", lambda run, a, b: VInt(int, a - b), True)
METHODS[(int, "__mul__")] = _int_binop("mul", lambda run, a, b: VInt(int, a * b))
METHODS[(int, "__rmul__")] = _int_binop("rmul", lambda run, a, b: VInt(int, a * b), True)
METHODS[(int, "__floordiv__")] = _int_binop("floordiv", lambda run, a, b: VInt(int, floordivmod(run, a, b)[0]))
METHODS[(int, "__rfloordiv__")] = _int_binop("rfloordiv", lambda run, a, b: VInt(int, floordivmod(run, a, b)[0]), True)
METHODS[(int, "__mod__")] = _int_binop("mod", lambda run, a, b: VInt(int, floordivmod(run, a, b)[1]))
METHODS[(int, "__rmod__")] = _int_binop("rmod", lambda run, a, b: VInt(int, floordivmod(run, a, b)[1]), True)


def _int_pow(run, a, b):
    ca, cb = _as_long(a), _as_long(b)
    if ca is not None and cb is not None:
        if cb >= 0:
            return VInt(int, ca ** cb)
        return VFloat(float, float(ca) ** cb)
    raise Unsupported("symbolic int power")


METHODS[(int, "__pow__")] = lambda run, self, other, mod=None: (
    _int_pow(run, self.t, other.t) if isinstance(other, VInt) else NOTIMPL)
METHODS[(int, "__rpow__")] = lambda run, self, other, mod=None: (
    _int_pow(run, other.t, self.t) if isinstance(other, VInt) else NOTIMPL)


@method(int, "__truediv__")
def int_truediv(run, self, other):
    if not isinstance(other, VInt):
        return NOTIMPL
    ca, cb = _as_long(self.t), _as_long(other.t)
    if cb == 0:
        run.throw(ZeroDivisionError, "division by zero")
    if ca is not None and cb is not None:
        return VFloat(float, ca / cb)
    if run.branch(other.t == 0):
        run.throw(ZeroDivisionError, "division by zero")
    lim = 2 ** 1024
    if run.feasible(z3.Or(self.t >= lim, self.t <= -lim, other.t >= lim, other.t <= -lim)):
        raise Unsupported("true division of ints beyond the binary64 range")
    return VFloat(float, z3.fpRealToFP(RNE, z3.ToReal(self.t) / z3.ToReal(other.t), FP))      # long_true_divide is correctly rounded


@method(int, "__rtruediv__")
def int_rtruediv(run, self, other):
    if not isinstance(other, VInt):
        return NOTIMPL
    return int_truediv(run, other, self)


def _int_cmp(name, fn):
    def m(run, self, other):
        if isinstance(other, VInt):
            return mk_bool(run, fn(self.t, other.t))
        return NOTIMPL          # also for float: long_richcompare declines, float_richcompare (reflected) decides
    m.__name__ = name
    return m


METHODS[(int, "__eq__")] = _int_cmp("eq", lambda a, b: a == b)
METHODS[(int, "__ne__")] = _int_cmp("ne", lambda a, b: a != b)
METHODS[(int, "__lt__")] = _int_cmp("lt", lambda a, b: a < b)
METHODS[(int, "__le__")] = _int_cmp("le", lambda a, b: a <= b)
METHODS[(int, "__gt__")] = _int_cmp("gt", lambda a, b: a > b)
METHODS[(int, "__ge__")] = _int_cmp("ge", lambda a, b: a >= b)


@method(int, "__neg__")
def int_neg(run, self):
    return VInt(int, -self.t)


@method(int, "__pos__", "__int__", "__index__", "__trunc__", "__floor__", "__ceil__")
def int_pos(run, self):
    return VInt(int, self.t)


@method(int, "__abs__")
def int_abs(run, self):
    if run.branch(self.t >= 0):
        return VInt(int, self.t)
    return VInt(int, -self.t)


@method(int, "__bool__")
def int_bool(run, self):
    return mk_bool(run, self.t != 0)


@method(int, "__hash__")
def int_hash(run, self):
    c = _as_long(self.t)
    if c is not None:
        return VInt(int, hash(c))
    return VInt(int, run.fresh_int("hv_hash"))


@method(int, "__repr__", "__str__")
def int_repr(run, self):
    c = _as_long(self.t)
    if c is not None:
        return VStr(str, repr(c))
    # int -> decimal text.  Trusted facts about CPython's rendering, added as assumptions on a fresh string:
    # it is an optional '-' followed by decimal digits, and parsing it back gives the same integer (int(str(n)) == n).
    s_ = run.fresh("int_text", z3.StringSort())
    digits = z3.Plus(z3.Range("0", "9"))
    run.assume(z3.InRe(s_, z3.Concat(z3.Option(z3.Re("-")), digits)))
    run.assume(z3.PrefixOf(z3.StringVal("-"), s_) == (self.t < 0))
    run.ghost.setdefault("rendered_ints", {})[s_.get_id()] = self.t
    run.note("int rendering: str(n) is -?[0-9]+ and int(str(n)) == n (trusted CPython facts)")
    return VStr(str, s_)


@method(int, "__float__")
def int_float(run, self):
    c = _as_long(self.t)
    if c is not None:
        try:
            return VFloat(float, float(c))
        except OverflowError:
            run.throw(OverflowError, "int too large to convert to float")
    raise Unsupported("symbolic int -> float")


def _digit_val(c):
    """digit value of an ASCII alphanumeric code point, -1 for anything else"""
    return z3.If(z3.And(c >= 48, c <= 57), c - 48,
                 z3.If(z3.And(c >= 97, c <= 122), c - 87, z3.If(z3.And(c >= 65, c <= 90), c - 55, z3.IntVal(-1))))


def _int_of_digits(run, x, base):
    """int(text, base), exact, for a symbolic text of known length 1..16 that consists of ASCII alphanumerics only
    (no sign, blank, underscore, prefix or non-ASCII digit: those cases return None and stay over-approximated).
    Raises ValueError (symbolically) for the empty text and for a digit that is not below the base."""
    if not isinstance(base, int) or not 2 <= base <= 36:
        return None
    t = x.t
    units = flat_units(t)
    if units is not None and 1 <= len(units) <= 22:
        return _int_of_codes(run, [z3.IntVal(u) if isinstance(u, int) else u for u in units], base)
    # only texts whose length the path condition determines (no forking over lengths)
    if run.solver.check() != z3.sat:
        return None
    n = run.solver.model().eval(z3.Length(t), model_completion=True)
    if not z3.is_int_value(n) or not 1 <= n.as_long() <= 22:
        return None
    n = n.as_long()
    if run.feasible(z3.Length(t) != n):
        return None
    codes = [z3.StrToCode(z3.SubString(t, i, 1)) for i in range(n)]
    return _int_of_codes(run, codes, base)


def _int_of_codes(run, codes, base):
    n = len(codes)
    # an optional sign, when the path condition determines the first character to be one
    sign = 1
    if n >= 2:
        for ch, sg in (("-", -1), ("+", 1)):
            if not run.feasible(codes[0] != ord(ch)):
                sign, codes, n = sg, codes[1:], n - 1
                break
    dv = [_digit_val(c) for c in codes]
    if not run.branch(z3.And(*[d >= 0 for d in dv])):
        return None
    if run.branch(z3.And(*[d < base for d in dv])):
        mag = z3.Sum(*[d * (base ** (n - 1 - i)) for i, d in enumerate(dv)]) if n > 1 else dv[0]
        return mag if sign == 1 else -mag
    if base in (2, 8, 16) and n >= 2 and run.branch(z3.And(codes[0] == 48, z3.Or(*[codes[1] == ord(ch) for ch in "xXoObB"]))):
        return None     # a base prefix such as 0x: left to the over-approximation
    run.throw(ValueError, f"invalid literal for int() with base {base}")


@method(int, "__new__")
def int_new(run, clsv, x=None, base=None, **kw):
    cls = clsv.obj
    if x is None:
        return VInt(cls, 0)
    if base is not None:
        if not (isinstance(x, (VStr, VBytes)) and is_concrete(x) and is_concrete(base)):
            if isinstance(x, VStr) and is_concrete(base) and not is_concrete(x):
                exact = _int_of_digits(run, x, _se().conc(base))
                if exact is not None:
                    return VInt(cls, exact)
            if isinstance(x, VStr):
                run.note("int(<symbolic text>, base) is abstracted to 'some integer or ValueError'")
                run.overapprox = True
                if run.branch(run.fresh("parses", z3.BoolSort())):
                    return VInt(cls, run.fresh_int("parsed"))
                run.throw(ValueError, "invalid literal for int()")
            run.throw(TypeError, "int() can't convert non-string with explicit base")
        try:
            return VInt(cls, int(_se().conc(x), _se().conc(base)))
        except ValueError as ex:
            run.throw(ValueError, *ex.args)
    if isinstance(x, VInt):
        return VInt(cls, x.t)
    if isinstance(x, VFloat):
        return VInt(cls, float_trunc_term(run, x))
    if isinstance(x, (VStr, VBytes)):
        if is_concrete(x):
            try:
                return VInt(cls, int(_se().conc(x)))
            except ValueError as ex:
                run.throw(ValueError, *ex.args)
        h = run.ghost.get("int_of_str")
        if h is not None:
            return VInt(cls, h(run, x))
        if isinstance(x, VStr) and run.ghost.get("exact_numerals"):
            exact = _int_of_digits(run, x, 10)
            if exact is not None:
                return VInt(cls, exact)
        known = run.ghost.get("rendered_ints", {}).get(x.t.get_id())
        if known is not None:
            return VInt(cls, known)            # int(str(n)) == n
        # over-approximation: parsing an unknown text yields some integer or raises ValueError
        run.note("int(<symbolic text>) is abstracted to 'some integer or ValueError'")
        run.overapprox = True
        if run.branch(run.fresh("parses", z3.BoolSort())):
            return VInt(cls, run.fresh_int("parsed"))
        run.throw(ValueError, "invalid literal for int()")
    for dn in ("__int__", "__index__", "__trunc__"):
        hit = run.find_attr(x.cls, dn)
        if hit is not None:
            r = run.call(run.bind_raw(hit[0], dn, hit[1], x, x.cls), [])
            if isinstance(r, VInt):
                return VInt(cls, r.t)
            run.throw(TypeError, f"{dn} returned non-int")
    run.throw(TypeError, f"int() argument must be a string, a bytes-like object or a real number, "
                         f"not '{x.cls.__name__}'")


@method(bool, "__new__")
def bool_new(run, clsv, x=None):
    if x is None:
        return mk_bool(run, False)
    return mk_bool(run, run.truth(x))


@method(bool, "__repr__", "__str__")
def bool_repr(run, self):
    c = _as_long(self.t)
    if c is not None:
        return VStr(str, repr(bool(c)))
    return VStr(str, z3.If(self.t != 0, z3.StringVal("True"), z3.StringVal("False")))


for _n in ("__and__", "__or__", "__xor__", "__rand__", "__ror__", "__rxor__"):
    def _mk(_n):
        def m(run, self, other):
            if not isinstance(other, VInt):
                return NOTIMPL
            ca, cb = _as_long(self.t), _as_long(other.t)
            if ca is None or cb is None:
                raise Unsupported("symbolic bit operation")
            r = getattr(int, _n)(ca, cb)
            return VInt(bool if self.cls is bool and other.cls is bool else int, int(r))
        return m
    METHODS[(int, _n)] = _mk(_n)
    METHODS[(bool, _n)] = METHODS[(int, _n)]


# ====================================================================== float
def float_trunc_term(run, x):
    """math.trunc / int() of a float: ValueError on NaN, OverflowError on inf, else integer part."""
    if z3.is_fp_value(z3.simplify(x.t)):
        f = _se().fp_to_py(z3.simplify(x.t))
        try:
            return z3.IntVal(math.trunc(f))
        except ValueError as ex:
            run.throw(ValueError, *ex.args)
        except OverflowError as ex:
            run.throw(OverflowError, *ex.args)
    exact = _exact_int_of(run, x.t)
    if exact is not None:
        return exact
    if run.branch(z3.fpIsNaN(x.t)):
        run.throw(ValueError, "cannot convert float NaN to integer")
    if run.branch(z3.fpIsInf(x.t)):
        run.throw(OverflowError, "cannot convert float infinity to integer")
    # Real abstraction: every finite double is a real number; trunc enters through its contract.
    r = z3.fpToReal(x.t)
    t = run.fresh_int("trunc")
    if run.branch(r >= 0):
        run.assume(z3.And(z3.ToReal(t) <= r, r < z3.ToReal(t) + 1))
    else:
        run.assume(z3.And(z3.ToReal(t) >= r, r > z3.ToReal(t) - 1))
    return t


def _exact_int_of(run, t):
    """Lemma: for an integer n with |n| <= 2**53, float(n) is exact and trunc(float(n)) == n.
    Recognises the term float(n) = fpRealToFP(RNE, ToReal(n)) and checks the bound under the path condition."""
    try:
        if t.decl().kind() == z3.Z3_OP_FPA_TO_FP and t.num_args() == 2 and z3.is_real(t.arg(1)):
            r = t.arg(1)
            if r.decl().kind() == z3.Z3_OP_TO_REAL:
                n = r.arg(0)
                lim = 2 ** 53
                if not run.feasible(z3.Or(n > lim, n < -lim)):
                    run.note("lemma used: an int with |n| <= 2**53 converts to float exactly, so int(float(n)) == n")
                    return n
    except Exception:
        pass
    return None


def _to_fp(run, v):
    if isinstance(v, VFloat):
        return v.t
    if isinstance(v, VInt):
        c = _as_long(v.t)
        if c is not None:
            try:
                return z3.FPVal(float(c), FP)
            except OverflowError:
                run.throw(OverflowError, "int too large to convert to float")
        lim = 2 ** 1024
        if run.branch(z3.Or(v.t >= lim, v.t <= -lim)):
            run.throw(OverflowError, "int too large to convert to float")
        return z3.fpRealToFP(RNE, z3.ToReal(v.t), FP)     # correctly rounded int -> binary64
    return None


def _float_binop(name, fn, reflected=False):
    def m(run, self, other):
        o = _to_fp(run, other)
        if o is None:
            return NOTIMPL
        a, b = (o, self.t) if reflected else (self.t, o)
        return fn(run, a, b)
    m.__name__ = name
    return m


def _fdiv(run, a, b):
    if run.branch(z3.fpIsZero(b)):
        run.throw(ZeroDivisionError, "float division by zero")
    return VFloat(float, z3.fpDiv(RNE, a, b))


METHODS[(float, "__add__")] = _float_binop("add", lambda run, a, b: VFloat(float, z3.fpAdd(RNE, a, b)))
METHODS[(float, "__radd__")] = _float_binop("radd", lambda run, a, b: VFloat(float, z3.fpAdd(RNE, a, b)), True)
METHODS[(float, "__sub__")] = _float_binop("sub", lambda run, a, b: VFloat(float, z3.fpSub(RNE, a, b)))
METHODS[(float, "__rsub__")] = _float_binop("rsub", lambda run, a, b: VFloat(float, z3.fpSub(RNE, a, b)), True)
METHODS[(float, "__mul__")] = _float_binop("mul", lambda run, a, b: VFloat(float, z3.fpMul(RNE, a, b)))
METHODS[(float, "__rmul__")] = _float_binop("rmul", lambda run, a, b: VFloat(float, z3.fpMul(RNE, a, b)), True)
METHODS[(float, "__truediv__")] = _float_binop("truediv", _fdiv)
METHODS[(float, "__rtruediv__")] = _float_binop("rtruediv", _fdiv, True)


def _float_mod(run, a, b):
    if run.branch(z3.fpIsZero(b)):
        run.throw(ZeroDivisionError, "float modulo")
    run.overapprox = True
    run.note("float % float: the value is abstracted (any binary64), only the zero-divisor exception is modelled")
    return VFloat(float, run.fresh("hv_fmod", FP))


METHODS[(float, "__mod__")] = _float_binop("mod", _float_mod)
METHODS[(float, "__rmod__")] = _float_binop("rmod", _float_mod, True)
METHODS[(float, "__floordiv__")] = _float_binop("floordiv", _float_mod)
METHODS[(float, "__rfloordiv__")] = _float_binop("rfloordiv", _float_mod, True)


def _float_cmp(name, fn):
    """float <op> float: IEEE.  float <op> int: CPython compares EXACTLY (float_richcompare), never by rounding the int;
    on its slow path (same sign negative, more than 48 bits, same number of integer bits) it negates the int with
    PyNumber_Negative, i.e. it calls an int subclass's own __neg__, which may raise."""
    def m(run, self, other):
        if isinstance(other, VInt):
            v, w = self.t, other.t
            hit = run.find_attr(other.cls, "__neg__")
            if hit is not None and hit[0] is not int and hit[0] is not bool:
                vr = z3.fpToReal(v)
                same_bits = z3.Or([z3.And(z3.ToReal(-w) >= 2 ** (k - 1), z3.ToReal(-w) < 2 ** k, -vr >= 2 ** (k - 1), -vr < 2 ** k) for k in range(49, 66)])
                finite = z3.Not(z3.Or(z3.fpIsNaN(v), z3.fpIsInf(v)))
                if run.branch(z3.And(finite, z3.fpIsNegative(v), w < 0, same_bits)):
                    run.call(run.bind_raw(hit[0], "__neg__", hit[1], other, other.cls), [])      # may raise (int64 minimum)
                elif run.feasible(z3.And(finite, w <= -(2 ** 65))):
                    raise Unsupported("float comparison with an int subclass beyond 65 bits")
            wr = z3.ToReal(w)
            vr = z3.fpToReal(v)
            exact = {"eq": vr == wr, "ne": vr != wr, "lt": vr < wr, "le": vr <= wr, "gt": vr > wr, "ge": vr >= wr}[name]
            pinf = z3.And(z3.fpIsInf(v), z3.fpIsPositive(v))
            ninf = z3.And(z3.fpIsInf(v), z3.fpIsNegative(v))
            at_pinf = name in ("ne", "gt", "ge")
            at_ninf = name in ("ne", "lt", "le")
            return mk_bool(run, z3.If(z3.fpIsNaN(v), z3.BoolVal(name == "ne"), z3.If(pinf, z3.BoolVal(at_pinf), z3.If(ninf, z3.BoolVal(at_ninf), exact))))
        o = _to_fp(run, other)
        if o is None:
            return NOTIMPL
        return mk_bool(run, fn(self.t, o))
    m.__name__ = name
    return m


METHODS[(float, "__eq__")] = _float_cmp("eq", lambda a, b: z3.fpEQ(a, b))
METHODS[(float, "__ne__")] = _float_cmp("ne", lambda a, b: z3.Not(z3.fpEQ(a, b)))
METHODS[(float, "__lt__")] = _float_cmp("lt", lambda a, b: z3.fpLT(a, b))
METHODS[(float, "__le__")] = _float_cmp("le", lambda a, b: z3.fpLEQ(a, b))
METHODS[(float, "__gt__")] = _float_cmp("gt", lambda a, b: z3.fpGT(a, b))
METHODS[(float, "__ge__")] = _float_cmp("ge", lambda a, b: z3.fpGEQ(a, b))


@method(float, "__neg__")
def float_neg(run, self):
    return VFloat(float, z3.fpNeg(self.t))


@method(float, "__pos__", "__float__")
def float_pos(run, self):
    return VFloat(float, self.t)


@method(float, "__abs__")
def float_abs(run, self):
    return VFloat(float, z3.fpAbs(self.t))


@method(float, "__bool__")
def float_bool(run, self):
    return mk_bool(run, z3.Not(z3.fpIsZero(self.t)))


@method(float, "__trunc__", "__int__")
def float_trunc(run, self):
    return VInt(int, float_trunc_term(run, self))


@method(float, "__hash__")
def float_hash(run, self):
    return VInt(int, run.fresh_int("hv_hash"))


@method(float, "__repr__", "__str__")
def float_repr(run, self):
    t = z3.simplify(self.t)
    if z3.is_fp_value(t):
        return VStr(str, repr(_se().fp_to_py(t)))
    s_ = run.fresh("hv_float_text", z3.StringSort())
    run.ghost.setdefault("rendered_floats", {})[s_.get_id()] = self.t
    run.assume(z3.Not(z3.Or(z3.PrefixOf(z3.StringVal("0x"), s_), z3.PrefixOf(z3.StringVal("0X"), s_),
                            z3.PrefixOf(z3.StringVal("-0x"), s_), z3.PrefixOf(z3.StringVal("-0X"), s_))))
    run.note("float rendering: float(repr(x)) == x, NaN included as NaN (trusted CPython fact)")
    return VStr(str, s_)


@method(float, "__new__")
def float_new(run, clsv, x=None):
    cls = clsv.obj
    if x is None:
        return VFloat(cls, 0.0)
    if isinstance(x, VFloat):
        return VFloat(cls, x.t)
    if isinstance(x, VInt):
        return VFloat(cls, _to_fp(run, x))
    if isinstance(x, (VStr, VBytes)):
        if is_concrete(x):
            try:
                return VFloat(cls, float(_se().conc(x)))
            except ValueError as ex:
                run.throw(ValueError, *ex.args)
        h = run.ghost.get("float_of_str")
        if h is not None:
            return VFloat(cls, h(run, x))
        known = run.ghost.get("rendered_floats", {}).get(x.t.get_id())
        if known is not None:
            return VFloat(cls, known)          # float(repr(x)) == x
        run.note("float(<symbolic text>) is abstracted to 'some double or ValueError'")
        run.overapprox = True
        if run.branch(run.fresh("parses", z3.BoolSort())):
            return VFloat(cls, run.fresh("parsedf", FP))
        run.throw(ValueError, "could not convert string to float")
    hit = run.find_attr(x.cls, "__float__")
    if hit is not None:
        r = run.call(run.bind_raw(hit[0], "__float__", hit[1], x, x.cls), [])
        return VFloat(cls, r.t)
    run.throw(TypeError, f"float() argument must be a string or a real number, not '{x.cls.__name__}'")


# ====================================================================== str
def _slice_bounds(run, n, sl):
    """n: z3 Int length; sl: VSlice with None/VInt bounds; step must be None. -> (lo, hi) clamped terms."""
    if not isinstance(sl.step, VNone):
        raise Unsupported("slice step")

    def norm(b, default):
        if isinstance(b, VNone):
            return default
        if not isinstance(b, VInt):
            run.throw(TypeError, "slice indices must be integers")
        t = b.t
        c = _as_long(t)
        if c is not None:
            if c >= 0:
                return z3.If(n < c, n, z3.IntVal(c))
            return z3.If(n + c < 0, z3.IntVal(0), n + c)
        adj = z3.If(t < 0, t + n, t)
        return z3.If(adj < 0, 0, z3.If(adj > n, n, adj))
    lo = norm(sl.lo, z3.IntVal(0))
    hi = norm(sl.hi, n)
    return lo, hi


def flat_units(t):
    """a string term that is structurally a concatenation of string constants and str.from_code(c) units -> the list of its
    characters' code points (python ints / z3 Int terms); None for any other term"""
    out = []
    stack = [t]
    while stack:
        e = stack.pop()
        if z3.is_string_value(e):
            out.extend(ord(ch) for ch in _se().zstr_to_py(e))
        elif z3.is_app(e) and e.decl().kind() == z3.Z3_OP_SEQ_CONCAT:
            stack.extend(reversed(e.children()))
        elif z3.is_app(e) and e.decl().kind() == z3.Z3_OP_STR_FROM_CODE:
            out.append(e.arg(0))
        else:
            return None
    return out


def units_term(units):
    parts = []
    for u in units:
        if isinstance(u, int) and parts and isinstance(parts[-1], str):
            parts[-1] += chr(u)
        elif isinstance(u, int):
            parts.append(chr(u))
        else:
            parts.append(z3.StrFromCode(u))
    parts = [z3.StringVal(x) if isinstance(x, str) else x for x in parts]
    return z3.StringVal("") if not parts else (parts[0] if len(parts) == 1 else z3.Concat(*parts))


@method(str, "__getitem__")
def str_getitem(run, self, idx):
    se = _se()
    if isinstance(idx, se.VSlice):
        if is_concrete(self) and all(is_concrete(x) for x in (idx.lo, idx.hi, idx.step)):
            s = se.conc(VStr(str, self.t))
            return VStr(str, s[slice(se.conc(idx.lo), se.conc(idx.hi), se.conc(idx.step))])
        if all(is_concrete(x) for x in (idx.lo, idx.hi, idx.step)) and se.conc(idx.step) in (None, 1):
            units = flat_units(self.t)
            if units is not None:        # every piece has a known length: the slice is computed structurally (exact)
                return VStr(str, units_term(units[slice(se.conc(idx.lo), se.conc(idx.hi))]))
        n = z3.Length(self.t)
        lo, hi = _slice_bounds(run, n, idx)
        ln = z3.If(hi - lo < 0, 0, hi - lo)
        return VStr(str, z3.SubString(self.t, lo, ln))
    if isinstance(idx, VInt):
        n = z3.Length(self.t)
        i = z3.If(idx.t < 0, idx.t + n, idx.t)
        if run.branch(z3.Or(i < 0, i >= n)):
            run.throw(IndexError, "string index out of range")
        return VStr(str, z3.SubString(self.t, i, 1))
    run.throw(TypeError, "string indices must be integers")


def _str_cmp(name, fn):
    def m(run, self, other):
        if not isinstance(other, VStr):
            return NOTIMPL
        return mk_bool(run, fn(self.t, other.t))
    return m


METHODS[(str, "__eq__")] = _str_cmp("eq", lambda a, b: a == b)
METHODS[(str, "__ne__")] = _str_cmp("ne", lambda a, b: a != b)
METHODS[(str, "__lt__")] = _str_cmp("lt", lambda a, b: a < b)
METHODS[(str, "__le__")] = _str_cmp("le", lambda a, b: a <= b)
METHODS[(str, "__gt__")] = _str_cmp("gt", lambda a, b: a > b)
METHODS[(str, "__ge__")] = _str_cmp("ge", lambda a, b: a >= b)


@method(str, "__add__")
def str_add(run, self, other):
    if not isinstance(other, VStr):
        run.throw(TypeError, f'can only concatenate str (not "{other.cls.__name__}") to str')
    return VStr(str, z3.Concat(self.t, other.t))


@method(str, "__mul__", "__rmul__")
def str_mul(run, self, other):
    if not isinstance(other, VInt):
        run.throw(TypeError, "can't multiply sequence by non-int")
    if is_concrete(self) and is_concrete(other):
        n = _as_long(other.t)
        if n > 10**6:
            run.throw(MemoryError)
        return VStr(str, _se().conc(VStr(str, self.t)) * n)
    n = other.t
    if run.branch(n <= 0):
        return VStr(str, "")
    if run.branch(n == 1):
        return VStr(str, self.t)
    if run.branch(n * z3.Length(self.t) > 2 ** 63 - 1):
        run.throw(OverflowError, "repeated string is too long")
    run.overapprox = True
    run.note("str * n for n >= 2: the text is abstracted; allocation is assumed to succeed (no MemoryError)")
    out = run.fresh("hv_repeat", z3.StringSort())
    run.assume(z3.Length(out) == n * z3.Length(self.t))
    return VStr(str, out)


@method(str, "__len__")
def str_len(run, self):
    return VInt(int, z3.Length(self.t))


@method(str, "__contains__")
def str_contains(run, self, item):
    if not isinstance(item, VStr):
        run.throw(TypeError, f"'in <string>' requires string as left operand, not {item.cls.__name__}")
    return mk_bool(run, z3.Contains(self.t, item.t))


@method(str, "__hash__")
def str_hash(run, self):
    return VInt(int, run.fresh_int("hv_hash"))


@method(str, "__str__")
def str_str(run, self):
    return VStr(str, self.t)


@method(str, "__repr__")
def str_repr(run, self):
    if is_concrete(self):
        return VStr(str, repr(_se().conc(VStr(str, self.t))))
    return VStr(str, run.fresh("hv_strrepr", z3.StringSort()))


@method(str, "__iter__")
def str_iter(run, self):
    return VIter(run.iterate(self), "str_iterator")


@method(str, "startswith")
def str_startswith(run, self, prefix, *a):
    if a:
        raise Unsupported("startswith with bounds")
    if isinstance(prefix, VTuple):
        return mk_bool(run, z3.Or([z3.PrefixOf(p.t, self.t) for p in prefix.items]))
    if not isinstance(prefix, VStr):
        run.throw(TypeError, "startswith first arg must be str or a tuple of str")
    return mk_bool(run, z3.PrefixOf(prefix.t, self.t))


@method(str, "endswith")
def str_endswith(run, self, suffix, *a):
    if a:
        raise Unsupported("endswith with bounds")
    if isinstance(suffix, VTuple):
        return mk_bool(run, z3.Or([z3.SuffixOf(p.t, self.t) for p in suffix.items]))
    if not isinstance(suffix, VStr):
        run.throw(TypeError, "endswith first arg must be str or a tuple of str")
    return mk_bool(run, z3.SuffixOf(suffix.t, self.t))


def _str_fold(name):
    def m(run, self, *args, **kw):
        se = _se()
        if name == "encode" and not is_concrete(self) and (not args or (is_concrete(args[0]) and se.conc(args[0]).lower().replace("-", "") == "utf8")):
            # utf8_fn: the encoding as a function symbol (same symbol in code and specification) instead of a fresh constant
            b = HV_UTF8(self.t) if run.ghost.get("utf8_fn") else run.fresh("utf8", BYTES)
            run.ghost.setdefault("utf8_of", {})[b.get_id()] = self.t
            run.note("UTF-8: bytes.decode('utf-8') inverts str.encode('utf-8') (trusted)")
            return VBytes(bytes, b)
        if is_concrete(self) and all(is_concrete(a) for a in args) and all(is_concrete(a) for a in kw.values()):
            try:
                r = getattr(str, name)(se.conc(VStr(str, self.t)), *[se.conc(a) for a in args],
                                       **{k: se.conc(v) for k, v in kw.items()})
            except Exception as ex:  # the real builtin's own exception
                run.throw(type(ex), *ex.args)
            return se.lift(r)
        h = run.ghost.get("str_method")
        if h is not None:
            return h(run, name, self, args, kw)
        if name in ("lower", "upper") and not args and not kw and isinstance(self, VStr):
            # a text the path condition determines completely (e.g. a slice inside a concrete prefix) is folded natively
            simp = z3.simplify(self.t)
            if z3.is_string_value(simp):
                return se.lift(getattr(str, name)(se.zstr_to_py(simp)))
            run.solver.push()
            try:
                if run.solver.check() == z3.sat:
                    val = run.solver.model().eval(self.t, model_completion=True)
                    if z3.is_string_value(val) and not run.feasible(self.t != val):
                        return se.lift(getattr(str, name)(se.zstr_to_py(val)))
            finally:
                run.solver.pop()
        raise Unsupported(f"str.{name} on symbolic string")
    return m


@method(str, "join")
def str_join(run, self, it):
    items = list(run.iterate(it))
    if any(type(x).__name__ == "VText" for x in items):
        h = run.ghost.get("text_join")
        if h is None:
            raise Unsupported("join over abstract text without a text model")
        return h(run, self, items)
    if run.ghost.get("str_method") is None and isinstance(self, VStr) and items and all(isinstance(x, VStr) for x in items) \
            and not (is_concrete(self) and all(is_concrete(x) for x in items)):
        # exact: sep.join of a list of known length whose items are all str instances is the interleaved concatenation
        def term(v):
            return z3.StringVal(v.t) if isinstance(v.t, str) else v.t
        parts = []
        for i, x in enumerate(items):
            if i:
                parts.append(term(self))
            parts.append(term(x))
        return VStr(str, parts[0] if len(parts) == 1 else z3.Concat(*parts))
    return _str_fold("join")(run, self, VList(list, items))


def _zset_of(run, seq):
    sort = seq.t.sort().basis()
    return VZSet(lambda x, t=seq.t: z3.Contains(t, z3.Unit(x)), sort, seq.elem_cls, tag=("of", seq))


def _zset_binop(kind):
    def m(run, self, other):
        if not isinstance(other, VZSet):
            return NOTIMPL
        f = {"and": lambda x: z3.And(self.member(x), other.member(x)),
             "or": lambda x: z3.Or(self.member(x), other.member(x)),
             "sub": lambda x: z3.And(self.member(x), z3.Not(other.member(x))),
             "xor": lambda x: z3.Xor(self.member(x), other.member(x))}[kind]
        return VZSet(f, self.sort, self.elem_cls, tag=(kind, self, other))
    return m


@method(set, "__new__")
def set_new(run, clsv, it=None):
    if isinstance(it, VZSeq):
        return _zset_of(run, it)
    out = []
    if it is not None:
        for x in run.iterate(it):
            if not any(x is y or run.key_eq(x, y) for y in out):
                out.append(x)
    return VSet(clsv.obj, out)


@method(set, "__init__")
def set_init(run, self, *a):
    return NONE


def _set_dispatch(name, kind, concrete):
    def m(run, self, other):
        if isinstance(self, VZSet):
            return _zset_binop(kind)(run, self, other)
        return concrete(run, self, other)
    return m


def _set_bool(run, self):
    if isinstance(self, VZSet):
        x = z3.Const(f"x!{id(self) % 100000}", self.sort)
        return mk_bool(run, z3.Exists([x], self.member(x)))
    return mk_bool(run, len(self.items) > 0)


CARD = {}


def _set_len(run, self):
    if isinstance(self, VZSet):
        # cardinality of the set of distinct elements: an uninterpreted measure of the membership predicate's source
        if self.tag and self.tag[0] == "of":
            seq = self.tag[1].t
            f = z3.Function("distinct_count", seq.sort(), z3.IntSort())
            return VInt(int, f(seq))
        raise Unsupported("len of a derived symbolic set")
    return VInt(int, len(self.items))


METHODS[(set, "__bool__")] = _set_bool
METHODS[(set, "__len__")] = _set_len


def _set_eq(run, self, other):
    if not isinstance(other, VSet):
        return NOTIMPL
    if len(self.items) != len(other.items):
        return mk_bool(run, False)
    return mk_bool(run, all(any(a is b or run.key_eq(a, b) for b in other.items) for a in self.items))


METHODS[(set, "__eq__")] = _set_eq
METHODS[(frozenset, "__eq__")] = _set_eq


def _cset_and(run, self, other):
    if not isinstance(other, VSet):
        return NOTIMPL
    return VSet(set, [a for a in self.items if any(a is b or run.key_eq(a, b) for b in other.items)])


def _cset_sub(run, self, other):
    if not isinstance(other, VSet):
        return NOTIMPL
    return VSet(set, [a for a in self.items if not any(a is b or run.key_eq(a, b) for b in other.items)])


def _cset_or(run, self, other):
    if not isinstance(other, VSet):
        return NOTIMPL
    out = list(self.items)
    for b in other.items:
        if not any(a is b or run.key_eq(a, b) for a in out):
            out.append(b)
    return VSet(set, out)


METHODS[(set, "__and__")] = _set_dispatch("__and__", "and", _cset_and)
METHODS[(set, "__sub__")] = _set_dispatch("__sub__", "sub", _cset_sub)
METHODS[(set, "__or__")] = _set_dispatch("__or__", "or", _cset_or)


@method(set, "__iter__")
def set_iter(run, self):
    return VIter(iter(list(self.items)), "set_iterator")


for _n in ("lower", "upper", "strip", "lstrip", "rstrip", "split", "rsplit", "replace", "format", "encode",
           "isdigit", "isidentifier", "find", "rfind", "index", "count", "title", "capitalize", "partition",
           "rpartition", "splitlines", "zfill", "__mod__", "isalpha", "isalnum", "isspace", "casefold", "removeprefix",
           "removesuffix", "ljust", "rjust", "center", "translate", "__format__", "islower", "isupper", "swapcase"):
    if (str, _n) not in METHODS:
        METHODS[(str, _n)] = _str_fold(_n)


@method(str, "__new__")
def str_new(run, clsv, x=None, *a, **kw):
    cls = clsv.obj
    if x is None:
        return VStr(cls, "")
    if a or kw:
        if isinstance(x, VBytes) and is_concrete(x):
            se = _se()
            try:
                return VStr(cls, str(se.conc(x), *[se.conc(i) for i in a], **{k: se.conc(v) for k, v in kw.items()}))
            except Exception as ex:
                run.throw(type(ex), *ex.args)
        raise Unsupported("str(bytes, encoding) symbolic")
    if isinstance(x, VStr):
        return VStr(cls, x.t)
    hit = run.find_attr(x.cls, "__str__")
    r = run.call(run.bind_raw(hit[0], "__str__", hit[1], x, x.cls), [])
    if not isinstance(r, VStr):
        run.throw(TypeError, "__str__ returned non-string")
    return VStr(cls, r.t)


# ====================================================================== bytes (concrete folding + a few symbolic ops)
@method(bytes, "__new__")
def bytes_new(run, clsv, x=None, *a, **kw):
    cls = clsv.obj
    se = _se()
    if x is None:
        return VBytes(cls, b"")
    if isinstance(x, VBytes) and not a and not kw:
        return VBytes(cls, x.t)
    if isinstance(x, VIter):
        x = VList(list, list(x.it))
    if isinstance(x, VList) and not a and not kw and x.items and all(isinstance(i, VInt) for i in x.items) \
            and (not is_concrete(x) or any(isinstance(i, VByteRun) for i in x.items)):
        # bytes(iterable of ints): every item must be in range(256) (else ValueError); the result is their concatenation
        parts = []
        for i in x.items:
            if isinstance(i, VByteRun):
                parts.append(i.seq)
                continue
            if run.branch(z3.Or(i.t < 0, i.t > 255)):
                run.throw(ValueError, "bytes must be in range(0, 256)")
            parts.append(z3.Unit(z3.Int2BV(i.t, 8)))
        return VBytes(cls, parts[0] if len(parts) == 1 else z3.Concat(*parts))
    if is_concrete(x) and all(is_concrete(i) for i in a):
        try:
            return VBytes(cls, bytes(se.conc(x), *[se.conc(i) for i in a], **{k: se.conc(v) for k, v in kw.items()}))
        except Exception as ex:
            run.throw(type(ex), *ex.args)
    raise Unsupported("bytes() of symbolic value")


@method(bytes, "__len__")
def bytes_len(run, self):
    return VInt(int, z3.Length(self.t))


def _bytes_cmp(fn):
    def m(run, self, other):
        if not isinstance(other, VBytes):
            return NOTIMPL
        return mk_bool(run, fn(self.t, other.t))
    return m


METHODS[(bytes, "__eq__")] = _bytes_cmp(lambda a, b: a == b)
METHODS[(bytes, "__ne__")] = _bytes_cmp(lambda a, b: a != b)


@method(bytes, "__add__")
def bytes_add(run, self, other):
    if not isinstance(other, VBytes):
        run.throw(TypeError, "can't concat to bytes")
    return VBytes(bytes, z3.Concat(self.t, other.t))


@method(bytes, "__getitem__")
def bytes_getitem(run, self, idx):
    if isinstance(idx, VInt):
        n = z3.Length(self.t)
        i = z3.If(idx.t < 0, idx.t + n, idx.t)
        if run.branch(z3.Or(i < 0, i >= n)):
            run.throw(IndexError, "index out of range")
        return VInt(int, z3.BV2Int(self.t[i]))
    if hasattr(idx, "cls") and not issubclass(idx.cls, (int, slice)) and run.find_attr(idx.cls, "__index__") is None:
        run.throw(TypeError, "byte indices must be integers or slices")
    raise Unsupported("bytes slicing")


@method(bytes, "__hash__")
def bytes_hash(run, self):
    return VInt(int, run.fresh_int("hv_hash"))


@method(bytes, "__contains__")
def bytes_contains(run, self, item):
    if isinstance(item, VBytes):
        return mk_bool(run, z3.Contains(self.t, item.t))
    if isinstance(item, VInt):
        if run.branch(z3.Or(item.t < 0, item.t > 255)):
            run.throw(ValueError, "byte must be in range(0, 256)")
        return mk_bool(run, z3.Contains(self.t, z3.Unit(z3.Int2BV(item.t, 8))))
    run.throw(TypeError, "a bytes-like object is required")


def _bytes_affix(name, fn):
    def m(run, self, other, *rest):
        if rest:
            raise Unsupported(f"bytes.{name} with start/end")
        if isinstance(other, VBytes):
            return mk_bool(run, fn(other.t, self.t))
        if isinstance(other, VTuple):
            raise Unsupported(f"bytes.{name} with a tuple")
        run.throw(TypeError, f"{name} first arg must be bytes or a tuple of bytes")
    return m


METHODS[(bytes, "startswith")] = _bytes_affix("startswith", lambda p_, s_: z3.PrefixOf(p_, s_))
METHODS[(bytes, "endswith")] = _bytes_affix("endswith", lambda p_, s_: z3.SuffixOf(p_, s_))
METHODS[(type(None), "__repr__")] = lambda run, self: VStr(str, "None")
METHODS[(type(None), "__str__")] = lambda run, self: VStr(str, "None")


@method(bytes, "decode")
def bytes_decode(run, self, *a, **kw):
    se = _se()
    known = run.ghost.get("utf8_of", {}).get(self.t.get_id())
    if known is not None and (not a or se.conc(a[0]).lower().replace("-", "") in ("utf8", "utf")):
        return VStr(str, known)
    if not is_concrete(self):
        # arbitrary bytes: valid UTF-8 decodes to some text, anything else raises UnicodeDecodeError
        run.overapprox = True
        if run.branch(run.fresh("valid_utf8", z3.BoolSort())):
            return VStr(str, run.fresh("decoded", z3.StringSort()))
        raise se.PyRaise(VObj(UnicodeDecodeError, {"args": VTuple([VStr(str, "utf-8")])}))
    if is_concrete(self):
        try:
            return VStr(str, se.conc(VBytes(bytes, self.t)).decode(*[se.conc(i) for i in a]))
        except Exception as ex:
            run.throw(type(ex), *ex.args)
    raise Unsupported("decode of symbolic bytes")


@method(bytes, "__repr__", "__str__")
def bytes_repr(run, self):
    if is_concrete(self):
        return VStr(str, repr(_se().conc(VBytes(bytes, self.t))))
    return VStr(str, run.fresh("hv_bytesrepr", z3.StringSort()))


# ====================================================================== list / tuple
@method(list, "__new__")
def list_new(run, clsv, *a, **kw):
    if a and isinstance(a[0], (VSymIter, VSymList)):
        src = a[0]
        out = VSymList(clsv.obj, src.next_elem, "list(" + src.label + ")")
        # a list built from an iterator has as many elements as the iterator yields: share the length of the source
        base = src
        while getattr(base, "source", None) is not None:
            base = base.source
        out.length = getattr(base, "length", None)
        run.ghost.setdefault("list_from", []).append((out, src))
        # building the list consumes the iterator: expose what one arbitrary element does (it may raise)
        n = out.length
        if n is None:
            n = run.fresh_int("len")
            run.assume(n >= 0)
            if not isinstance(src, VSymIter) or src.label not in ("filter",):
                out.length = n
        if run.branch(run.fresh("source_nonempty", z3.BoolSort())):
            probe = src.next_elem(run)
            run.ghost.setdefault("list_probe", []).append((out, probe))
        return out
    return VList(clsv.obj, [])


@method(list, "__init__")
def list_init(run, self, it=None):
    if isinstance(self, VSymList):
        return NONE
    if it is None:
        self.items = []
    else:
        self.items = list(run.iterate(it))
    return NONE


@method(tuple, "__new__")
def tuple_new(run, clsv, it=None):
    if clsv.obj is not tuple:
        raise Unsupported("tuple subclass")
    return VTuple(list(run.iterate(it)) if it is not None else [])


def _seq_len(run, self):
    return VInt(int, len(self.items))


METHODS[(list, "__len__")] = _seq_len
METHODS[(tuple, "__len__")] = _seq_len


def _symlist_getitem(run, self, idx):
    if not isinstance(idx, VInt):
        hit = run.find_attr(idx.cls, "__index__")
        if hit is None:
            run.throw(TypeError, f"list indices must be integers or slices, not {idx.cls.__name__}")
        idx = run.call(run.bind_raw(hit[0], "__index__", hit[1], idx, idx.cls), [])
    n = b_len(run, self).t
    if run.branch(z3.Or(idx.t >= n, idx.t < -n)):
        run.throw(IndexError, "list index out of range")
    pos = z3.If(idx.t < 0, idx.t + n, idx.t)
    e = self.next_elem(run)
    run.ghost.setdefault("indexed", []).append((self, pos, e))
    return e


def _seq_getitem(run, self, idx):
    se = _se()
    if isinstance(self, VSymList):
        return _symlist_getitem(run, self, idx)
    items = self.items
    if isinstance(idx, se.VSlice):
        try:
            sl = slice(se.conc(idx.lo), se.conc(idx.hi), se.conc(idx.step))
        except se.NotConcrete:
            raise Unsupported("symbolic slice of list")
        r = items[sl]
        return VTuple(r) if isinstance(self, VTuple) else VList(list, r)
    if not isinstance(idx, VInt):
        hit = run.find_attr(idx.cls, "__index__")
        if hit is None:
            run.throw(TypeError, f"list indices must be integers or slices, not {idx.cls.__name__}")
        idx = run.call(run.bind_raw(hit[0], "__index__", hit[1], idx, idx.cls), [])
    c = _as_long(idx.t)
    n = len(items)
    if c is not None:
        if -n <= c < n:
            return items[c]
        run.throw(IndexError, "list index out of range")
    for i in range(n):
        if run.branch(z3.Or(idx.t == i, idx.t == i - n)):
            return items[i]
    run.throw(IndexError, "list index out of range")


METHODS[(list, "__getitem__")] = _seq_getitem
METHODS[(tuple, "__getitem__")] = _seq_getitem


@method(list, "__setitem__")
def list_setitem(run, self, idx, v):
    c = _as_long(idx.t) if isinstance(idx, VInt) else None
    if c is None:
        raise Unsupported("symbolic list store index")
    if not -len(self.items) <= c < len(self.items):
        run.throw(IndexError, "list assignment index out of range")
    self.items[c] = v
    return NONE


@method(list, "__iter__")
@method(tuple, "__iter__")
def seq_iter(run, self):
    return VIter(run.iterate(self), "list_iterator")


@method(list, "append")
def list_append(run, self, x):
    if isinstance(self, VSymList):
        run.ghost.setdefault("appended", []).append((self, x))
        return NONE
    run.heap_writes.append((self, "append"))
    self.items.append(x)
    return NONE


@method(list, "extend")
def list_extend(run, self, it):
    self.items.extend(list(run.iterate(it)))
    return NONE


@method(list, "pop")
def list_pop(run, self, idx=None):
    if not self.items:
        run.throw(IndexError, "pop from empty list")
    if idx is None:
        return self.items.pop()
    c = _as_long(idx.t)
    if c is None:
        raise Unsupported("symbolic pop index")
    try:
        return self.items.pop(c)
    except IndexError:
        run.throw(IndexError, "pop index out of range")


@method(list, "copy")
def list_copy(run, self):
    return VList(list, list(self.items))


@method(list, "insert")
def list_insert(run, self, idx, x):
    c = _as_long(idx.t)
    if c is None:
        raise Unsupported("symbolic insert index")
    self.items.insert(c, x)
    return NONE


@method(list, "__iadd__")
def list_iadd(run, self, it):
    self.items.extend(list(run.iterate(it)))
    return self


@method(list, "reverse")
def list_reverse(run, self):
    self.items.reverse()
    return NONE


def _seq_add(run, self, other):
    if isinstance(self, VTuple):
        if not isinstance(other, VTuple):
            run.throw(TypeError, "can only concatenate tuple to tuple")
        return VTuple(self.items + other.items)
    if not isinstance(other, VList):
        run.throw(TypeError, f'can only concatenate list (not "{other.cls.__name__}") to list')
    return VList(list, self.items + other.items)


METHODS[(list, "__add__")] = _seq_add
METHODS[(tuple, "__add__")] = _seq_add


@method(list, "__mul__", "__rmul__")
def list_mul(run, self, other):
    if not isinstance(other, VInt):
        run.throw(TypeError, "can't multiply sequence by non-int")
    c = _as_long(other.t)
    if c is None:
        raise Unsupported("symbolic list repeat")
    if c * max(len(self.items), 1) > 10**6:
        run.throw(MemoryError)
    return VList(list, self.items * c)


def _seq_contains(run, self, item):
    for x in list(self.items):
        if x is item:
            return mk_bool(run, True)
        if run.is_true(run.richcmp("Eq", x, item)):
            return mk_bool(run, True)
    return mk_bool(run, False)


METHODS[(list, "__contains__")] = _seq_contains
METHODS[(tuple, "__contains__")] = _seq_contains


def _seq_eq(run, self, other):
    if type(self) is not type(other) and not (isinstance(self, VList) and isinstance(other, VList)):
        return NOTIMPL
    if len(self.items) != len(other.items):
        return mk_bool(run, False)
    for a, b in zip(self.items, other.items):
        if a is b:
            continue
        if not run.is_true(run.richcmp("Eq", a, b)):
            return mk_bool(run, False)
    return mk_bool(run, True)


def _seq_ne(run, self, other):
    r = _seq_eq(run, self, other)
    if is_ni(r):
        return r
    t = run.truth(r)
    return mk_bool(run, (not t) if isinstance(t, bool) else z3.Not(t))


for _k in (list, tuple):
    METHODS[(_k, "__eq__")] = _seq_eq
    METHODS[(_k, "__ne__")] = _seq_ne
    for _n in ("__lt__", "__le__", "__gt__", "__ge__"):
        def _mk(_n):
            def m(run, self, other):
                if type(self) is not type(other):
                    return NOTIMPL
                raise Unsupported("sequence ordering")
            return m
        METHODS[(_k, _n)] = _mk(_n)


@method(list, "__repr__", "__str__")
@method(tuple, "__repr__", "__str__")
def seq_repr(run, self):
    return VStr(str, run.fresh("hv_seqrepr", z3.StringSort()))


@method(list, "__hash__")
def list_hash(run, self):
    run.throw(TypeError, "unhashable type: 'list'")


# ====================================================================== dict
@method(dict, "__new__")
def dict_new(run, clsv, *a, **kw):
    return VDict(clsv.obj, [], {})


@method(dict, "__init__")
def dict_init(run, self, src=None, **kw):
    if src is not None:
        if isinstance(src, VNative) and type(src.obj) is dict:
            ov = run.native_overlay.get(id(src.obj), {})
            self.pairs = [[_se().lift(k), (ov[k] if k in ov else _se().lift(v))] for k, v in src.obj.items()]
            for k, v in ov.items():
                if k not in src.obj:
                    self.pairs.append([_se().lift(k), v])
        elif isinstance(src, VDict):
            for k, v in list(src.pairs):
                run.dict_set(self, k, v)
        else:
            for item in run.iterate(src):
                kv = list(run.iterate(item))
                if len(kv) != 2:
                    run.throw(ValueError, "dictionary update sequence element has wrong length")
                run.dict_set(self, kv[0], kv[1])
    for k, v in kw.items():
        run.dict_set(self, VStr(str, k), v)
    return NONE


@method(dict, "__getitem__")
def dict_getitem(run, self, k):
    v = run.dict_lookup(self, k)
    if v is None:
        raise _se().PyRaise(VObj(KeyError, {"args": VTuple([k])}))
    return v


@method(dict, "__setitem__")
def dict_setitem(run, self, k, v):
    run.dict_set(self, k, v)
    return NONE


@method(dict, "__contains__")
def dict_contains(run, self, k):
    return mk_bool(run, run.dict_lookup(self, k) is not None)


@method(dict, "get")
def dict_get(run, self, k, default=NONE):
    v = run.dict_lookup(self, k)
    return default if v is None else v


@method(dict, "setdefault")
def dict_setdefault(run, self, k, default=NONE):
    v = run.dict_lookup(self, k)
    if v is None:
        run.dict_set(self, k, default)
        return default
    return v


@method(dict, "pop")
def dict_pop(run, self, k, *d):
    for i, (kk, vv) in enumerate(self.pairs):
        if kk is k or run.key_eq(kk, k):
            del self.pairs[i]
            return vv
    if d:
        return d[0]
    raise _se().PyRaise(VObj(KeyError, {"args": VTuple([k])}))


@method(dict, "__len__")
def dict_len(run, self):
    return VInt(int, len(self.pairs))


@method(dict, "__iter__")
def dict_iter(run, self):
    return VIter(iter([k for k, _ in self.pairs]), "dict_keyiterator")


DICT_KEYS = type({}.keys())


@method(dict, "keys")
def dict_keys(run, self):
    return VSet(DICT_KEYS, [k for k, _ in self.pairs])


def _keys_eq(run, self, other):
    if not isinstance(other, VSet):
        return NOTIMPL
    if len(self.items) != len(other.items):
        return mk_bool(run, False)
    for a in self.items:
        if not any(a is b or run.key_eq(a, b) for b in other.items):
            return mk_bool(run, False)
    return mk_bool(run, True)


METHODS[(DICT_KEYS, "__eq__")] = _keys_eq
METHODS[(DICT_KEYS, "__ne__")] = lambda run, self, other: (
    NOTIMPL if not isinstance(other, VSet) else mk_bool(run, z3.Not(run.truth(_keys_eq(run, self, other)))
                                                          if not isinstance(run.truth(_keys_eq(run, self, other)), bool)
                                                          else (not run.truth(_keys_eq(run, self, other)))))
METHODS[(DICT_KEYS, "__iter__")] = lambda run, self: VIter(iter(list(self.items)), "dict_keyiterator")
METHODS[(DICT_KEYS, "__len__")] = lambda run, self: VInt(int, len(self.items))
METHODS[(DICT_KEYS, "__contains__")] = lambda run, self, item: mk_bool(
    run, any(x is item or run.key_eq(x, item) for x in self.items))


@method(dict, "values")
def dict_values(run, self):
    return VList(list, [v for _, v in self.pairs])


@method(dict, "items")
def dict_items(run, self):
    return VList(list, [VTuple([k, v]) for k, v in self.pairs])


@method(dict, "update")
def dict_update(run, self, src=None, **kw):
    return dict_init(run, self, src, **kw)


@method(dict, "copy")
def dict_copy(run, self):
    return VDict(dict, [list(p) for p in self.pairs])


@method(dict, "__repr__", "__str__")
def dict_repr(run, self):
    return VStr(str, run.fresh("hv_dictrepr", z3.StringSort()))


@method(dict, "__hash__")
def dict_hash(run, self):
    run.throw(TypeError, "unhashable type: 'dict'")


# ====================================================================== set
@method(set, "__contains__")
@method(frozenset, "__contains__")
def set_contains(run, self, item):
    for x in self.items:
        if x is item or run.key_eq(x, item):
            return mk_bool(run, True)
    return mk_bool(run, False)





# ====================================================================== builtin functions
@callm(builtins.isinstance)
def b_isinstance(run, v, c):
    def one(cv):
        if isinstance(cv, VTuple):
            return any(one(x) for x in cv.items)
        if isinstance(cv, VNative) and isinstance(cv.obj, type):
            if isinstance(v, VOpaque) and v.cls is object:
                raise Unsupported("isinstance of opaque value")
            return issubclass(v.cls, cv.obj)
        if isinstance(cv, VNative):
            origin = getattr(cv.obj, "__origin__", None)
            if isinstance(origin, type):
                return issubclass(v.cls, origin)      # typing.Sequence, typing.Mapping, ... -> their ABC
            raise Unsupported("isinstance with non-class")
        raise Unsupported("isinstance second argument")
    return mk_bool(run, one(c))


def _dummy_of(cls):
    return object.__new__(cls)


@callm(builtins.issubclass)
def b_issubclass(run, a, b):
    def one(bv):
        if isinstance(bv, VTuple):
            return any(one(x) for x in bv.items)
        return issubclass(a.obj, bv.obj)
    if not (isinstance(a, VNative) and isinstance(a.obj, type)):
        run.throw(TypeError, "issubclass() arg 1 must be a class")
    return mk_bool(run, one(b))


@callm(builtins.len)
def b_len(run, v):
    if isinstance(v, VSymList):
        if v.length is None:
            v.length = run.fresh_int("len")
            run.assume(v.length >= 0)
        return VInt(int, v.length)
    if isinstance(v, VZSeq):
        return VInt(int, z3.Length(v.t))
    hit = run.find_attr(v.cls, "__len__")
    if hit is None:
        run.throw(TypeError, f"object of type '{v.cls.__name__}' has no len()")
    r = run.call(run.bind_raw(hit[0], "__len__", hit[1], v, v.cls), [])
    return r


@callm(builtins.abs)
def b_abs(run, v):
    return run.unop("__abs__", v)


@callm(builtins.repr)
def b_repr(run, v):
    hit = run.find_attr(v.cls, "__repr__")
    return run.call(run.bind_raw(hit[0], "__repr__", hit[1], v, v.cls), [])


@callm(builtins.hash)
def b_hash(run, v):
    hit = run.find_attr(v.cls, "__hash__")
    if hit is None or (isinstance(hit[1], VNone) or hit[1] is None):
        run.throw(TypeError, f"unhashable type: '{v.cls.__name__}'")
    return run.call(run.bind_raw(hit[0], "__hash__", hit[1], v, v.cls), [])


@callm(builtins.callable)
def b_callable(run, v):
    if isinstance(v, (VFunc, VModel, VBound)):
        return mk_bool(run, True)
    if isinstance(v, VNative):
        return mk_bool(run, callable(v.obj))
    return mk_bool(run, run.find_attr(v.cls, "__call__") is not None)


@callm(builtins.getattr)
def b_getattr(run, v, name, *default):
    n = _se().conc(name)
    if not default:
        return run.getattr(v, n)
    try:
        return run.getattr(v, n)
    except _se().PyRaise as pr:
        if issubclass(pr.exc.cls, AttributeError):
            return default[0]
        raise


@callm(builtins.hasattr)
def b_hasattr(run, v, name):
    try:
        run.getattr(v, _se().conc(name))
        return mk_bool(run, True)
    except _se().PyRaise as pr:
        if issubclass(pr.exc.cls, AttributeError):
            return mk_bool(run, False)
        raise


@callm(builtins.iter)
def b_iter(run, v):
    if isinstance(v, (VSymList, VSymIter)):
        return VSymIter(v.next_elem, "iter", source=v)
    return VIter(run.iterate(v))


@callm(builtins.next)
def b_next(run, it, *default):
    if not isinstance(it, VIter):
        run.throw(TypeError, f"'{it.cls.__name__}' object is not an iterator")
    try:
        return next(it.it)
    except StopIteration:
        if default:
            return default[0]
        run.throw(StopIteration)


@callm(builtins.map)
def b_map(run, f, *its):
    if len(its) == 1 and isinstance(its[0], (VSymIter, VSymList)):
        src = its[0]
        if isinstance(src, VSymList):
            b_len(run, src)       # fix the (symbolic) length of the source so that derived sequences can share it
        return VSymIter(lambda run: run.call(f, [src.next_elem(run)]), "map", source=src)
    srcs = [run.iterate(i) for i in its]

    def gen():
        for xs in zip(*srcs):
            yield run.call(f, list(xs))
    return VIter(gen(), "map")


@callm(builtins.filter)
def b_filter(run, f, it):
    if isinstance(it, (VSymIter, VSymList)):
        def nxt(run):
            x = it.next_elem(run)
            if x is SKIP:
                return x
            keep = run.is_true(x) if isinstance(f, VNone) else run.is_true(run.call(f, [x]))
            run.ghost.setdefault("filter_log", []).append((x, keep))
            return x if keep else SKIP
        return VSymIter(nxt, "filter", source=it)
    src = run.iterate(it)

    def gen():
        for x in src:
            if isinstance(f, VNone):
                keep = run.is_true(x)
            else:
                keep = run.is_true(run.call(f, [x]))
            if keep:
                yield x
    return VIter(gen(), "filter")


@callm(builtins.zip)
def b_zip(run, *its, **kw):
    if its and all(isinstance(i, (VSymIter, VSymList)) for i in its):
        return VSymIter(lambda run: VTuple([i.next_elem(run) for i in its]), "zip")
    srcs = [run.iterate(i) for i in its]

    def gen():
        for xs in zip(*srcs):
            yield VTuple(list(xs))
    return VIter(gen(), "zip")


@callm(builtins.enumerate)
def b_enumerate(run, it, start=None):
    s = _as_long(start.t) if start is not None else 0

    def gen():
        for i, x in enumerate(run.iterate(it), s):
            yield VTuple([VInt(int, i), x])
    return VIter(gen(), "enumerate")


@callm(builtins.reversed)
def b_reversed(run, it):
    if isinstance(it, (VList, VTuple)):
        return VIter(iter(list(reversed(it.items))), "reversed")
    raise Unsupported("reversed of non-sequence")


@callm(builtins.sorted)
def b_sorted(run, it, key=None, reverse=None):
    items = list(run.iterate(it))
    se = _se()
    try:
        keys = [se.conc(run.call(key, [x])) if key is not None else se.conc(x) for x in items]
    except se.NotConcrete:
        # up to two items: list.sort starts (count_run) with the comparison items[1] < items[0]; whatever that comparison
        # raises propagates, its truth value decides the order (a stable sort of two items needs nothing else)
        ks = [run.call(key, [x]) if key is not None else x for x in items]
        if len(items) <= 1:
            return VList(list, list(items))
        if len(items) == 2 and not (reverse is not None and se.conc(reverse)):
            swapped = run.is_true(run.richcmp("Lt", ks[1], ks[0]))
            return VList(list, [items[1], items[0]] if swapped else list(items))
        raise Unsupported("sorted of symbolic values")
    order = sorted(range(len(items)), key=lambda i: keys[i], reverse=bool(reverse and se.conc(reverse)))
    return VList(list, [items[i] for i in order])


@callm(builtins.sum)
def b_sum(run, it, start=None):
    acc = start if start is not None else VInt(int, 0)
    if isinstance(it, (VSymIter, VSymList)):
        return b_reduce(run, VModel(lambda run, a, b: run.binop("Add", a, b), "sum-step"), it, acc)
    for x in run.iterate(it):
        acc = run.binop("Add", acc, x)
    return acc


@callm(builtins.any)
def b_any(run, it):
    for x in run.iterate(it):
        if run.is_true(x):
            return mk_bool(run, True)
    return mk_bool(run, False)


@callm(builtins.all)
def b_all(run, it):
    for x in run.iterate(it):
        if not run.is_true(x):
            return mk_bool(run, False)
    return mk_bool(run, True)


def _minmax(which):
    def m(run, *args, **kw):
        if kw.get("key") is not None and len(args) == 1:
            items = list(run.iterate(args[0]))
            if not items:
                if "default" in kw:
                    return kw["default"]
                run.throw(ValueError, f"{which}() iterable argument is empty")
            best, bk = items[0], run.call(kw["key"], [items[0]])
            for x in items[1:]:
                k = run.call(kw["key"], [x])
                better = run.richcmp("Gt" if which == "max" else "Lt", k, bk)
                if run.is_true(better):
                    best, bk = x, k
            return best
        items = list(run.iterate(args[0])) if len(args) == 1 else list(args)
        if not items:
            if "default" in kw:
                return kw["default"]
            run.throw(ValueError, f"{which}() iterable argument is empty")
        best = items[0]
        for x in items[1:]:
            better = run.richcmp("Gt" if which == "max" else "Lt", x, best)
            if run.is_true(better):
                best = x
        return best
    return m


CALLS[id(builtins.min)] = (builtins.min, _minmax("min"))
CALLS[id(builtins.max)] = (builtins.max, _minmax("max"))


@callm(builtins.divmod)
def b_divmod(run, a, b):
    if isinstance(a, VInt) and isinstance(b, VInt):
        q, r = floordivmod(run, a.t, b.t)
        return VTuple([VInt(int, q), VInt(int, r)])
    raise Unsupported("divmod of non-ints")


@callm(builtins.ord)
def b_ord(run, c):
    if is_concrete(c):
        return VInt(int, ord(_se().conc(c)))
    if isinstance(c, VStr):
        if run.branch(z3.Length(c.t) != 1):
            run.throw(TypeError, "ord() expected a character")
        if run.branch(z3.StrToCode(c.t) <= 0x2FFFF):
            return VInt(int, z3.StrToCode(c.t))
    raise Unsupported("ord of symbolic char")


@callm(builtins.chr)
def b_chr(run, i):
    c = _as_long(i.t)
    if c is not None:
        try:
            return VStr(str, chr(c))
        except (ValueError, OverflowError) as ex:
            run.throw(type(ex), *ex.args)
    if not isinstance(i, VInt):
        run.throw(TypeError, "an integer is required")
    if run.branch(z3.Or(i.t < 0, i.t > 0x10FFFF)):
        if run.branch(z3.Or(i.t > 2**31 - 1, i.t < -2**31)):
            run.throw(OverflowError, "signed integer is greater than maximum")
        run.throw(ValueError, "chr() arg not in range(0x110000)")
    return VStr(str, chr_term(run, i.t))


HV_CHR = z3.Function("hv_chr_hi", z3.IntSort(), z3.StringSort())
HV_UTF8 = z3.Function("hv_utf8", z3.StringSort(), BYTES)


class VByteRun(VInt):
    """the run of ints obtained by iterating over a symbolic bytes value; understood by bytes() only (produced only when
    the contract sets ghost['utf8_fn'])"""
    __slots__ = ("seq",)

    def __init__(self, seq):
        super().__init__(int, z3.IntVal(0))
        self.seq = seq


def chr_term(run, i):
    """chr(i) for 0 <= i <= 0x10FFFF.  z3's character sort ends at 0x2FFFF: above it chr is an uninterpreted function
    (the same symbol in code and specification), the path is forked so that low code points stay exact."""
    if run is None:
        return z3.If(i <= 0x2FFFF, z3.StrFromCode(i), HV_CHR(i))
    if run.branch(i <= 0x2FFFF):
        return z3.StrFromCode(i)
    return HV_CHR(i)


@callm(builtins.print)
def b_print(run, *a, **kw):
    run.ghost.setdefault("printed", []).append((a, kw))
    return NONE


@callm(builtins.id)
def b_id(run, v):
    return VInt(int, id(v))      # identity of the wrapper object: unique per live object within a path


@callm(typing.cast)
def b_cast(run, t, v):
    return v


@callm(functools.wraps)
def b_wraps(run, wrapped, *a, **kw):
    return VModel(lambda run, f: f, "wraps-identity")


@callm(functools.reduce)
def b_reduce(run, f, it, *init):
    if isinstance(it, (VSymIter, VSymList)):
        # Left fold over a sequence of unknown length: inductive scheme with the invariant supplied by the contract.
        inv = run.ghost.get("fold_inv")
        if inv is None or not init:
            raise Unsupported("reduce over a symbolic sequence without a fold invariant")
        run.check(inv.holds(init[0], inv.summary0()), "fold invariant holds for the initial accumulator")
        sm = inv.fresh(run)
        acc = inv.make_acc(run, sm)
        x = it.next_elem(run)
        if x is SKIP:
            acc2 = acc                      # a filtered generator produced nothing for this source element
            run.check(inv.holds(acc2, inv.extend(sm, x)), "fold invariant preserved by a skipped element")
        else:
            run.ghost["fold_step_summary"] = inv.extend(sm, x)
            acc2 = run.call(f, [acc, x])
            run.ghost.pop("fold_step_summary", None)
            run.check(inv.holds(acc2, inv.extend(sm, x)), "fold invariant preserved by one more element")
        smf = inv.fresh(run)
        accf = inv.make_acc(run, smf)
        run.ghost["fold_final_summary"] = smf
        return accf
    src = run.iterate(it)
    if init:
        acc = init[0]
    else:
        try:
            acc = next(src)
        except StopIteration:
            run.throw(TypeError, "reduce() of empty iterable with no initial value")
    for x in src:
        acc = run.call(f, [acc, x])
    return acc


@callm(math.trunc)
def b_trunc(run, v):
    hit = run.find_attr(v.cls, "__trunc__")
    if hit is None:
        run.throw(TypeError, f"type {v.cls.__name__} doesn't define __trunc__ method")
    return run.call(run.bind_raw(hit[0], "__trunc__", hit[1], v, v.cls), [])


def _op_bin(opname):
    return lambda run, a, b: run.binop(opname, a, b)


for _o, _n in ((operator.add, "Add"), (operator.sub, "Sub"), (operator.mul, "Mult"), (operator.truediv, "Div"),
               (operator.floordiv, "FloorDiv"), (operator.mod, "Mod"), (operator.pow, "Pow")):
    CALLS[id(_o)] = (_o, _op_bin(_n))

for _o, _n in ((operator.lt, "Lt"), (operator.le, "LtE"), (operator.gt, "Gt"), (operator.ge, "GtE"),
               (operator.eq, "Eq"), (operator.ne, "NotEq")):
    CALLS[id(_o)] = (_o, (lambda n: lambda run, a, b: run.richcmp(n, a, b))(_n))

CALLS[id(operator.neg)] = (operator.neg, lambda run, a: run.unop("__neg__", a))
CALLS[id(operator.not_)] = (operator.not_, lambda run, a: mk_bool(
    run, (lambda t: (not t) if isinstance(t, bool) else z3.Not(t))(run.truth(a))))
CALLS[id(operator.getitem)] = (operator.getitem, lambda run, a, b: run.getitem(a, b))
CALLS[id(operator.contains)] = (operator.contains, lambda run, a, b: run.contains(a, b))


@callm(logging.getLogger)
def b_getlogger(run, *a):
    return VNative(logging.getLogger("pyvc.dummy"))


import sys as _sys  # noqa: E402


@callm(_sys.exc_info)
def b_exc_info(run):
    return VTuple([NONE, NONE, NONE])


# ====================================================================== native object attribute models
def native_attr(run, v, name):
    obj = v.obj
    if isinstance(obj, logging.Logger):
        if name in ("debug", "info", "warning", "error", "critical", "exception", "log", "setLevel"):
            return VModel(lambda run, *a, **kw: NONE, f"Logger.{name}")
        if name == "isEnabledFor":
            return VModel(lambda run, *a: mk_bool(run, False), "Logger.isEnabledFor")
    import re as _re
    if isinstance(obj, (_re.Pattern, _re.Match)):
        attr = getattr(obj, name)
        if not callable(attr):
            return _se().lift(attr)

        def folded(run, *a, **kw):
            se = _se()
            if not (all(is_concrete(x) for x in a) and all(is_concrete(x) for x in kw.values())):
                h = run.ghost.get("regex_method")
                if h is not None:
                    return h(run, obj, name, a, kw)
                raise Unsupported(f"re method {name} on symbolic text")
            try:
                r = attr(*[se.conc(x) for x in a], **{k: se.conc(v) for k, v in kw.items()})
            except Exception as ex:
                run.throw(type(ex), *ex.args)
            if name == "finditer":
                r = list(r)
            return se.lift(r)
        return VModel(folded, f"re.{type(obj).__name__}.{name}")
    if isinstance(obj, dict) and name in ("get", "__getitem__", "keys", "items", "__contains__"):
        # a live module-level dict (e.g. function globals)
        return None
    return None


def instance_attr(run, v, name):
    return None


def native_iter(run, v):
    obj = v.obj
    import sys as _s
    if obj is _s.stdin and "stdin_iter" in run.ghost:
        return None
    if isinstance(obj, (tuple, list, frozenset, set)):
        return iter([_se().lift(x) for x in obj])
    return None


@callm(math.copysign)
def b_copysign(run, x, y):
    fx, fy = _to_fp(run, x), _to_fp(run, y)
    if fx is None or fy is None:
        run.throw(TypeError, "must be real number")
    # sign bit of y (for a NaN y CPython copies the NaN's sign bit; z3 has a single NaN, so that case is refused)
    if run.branch(z3.fpIsNaN(fy)):
        raise Unsupported("copysign with NaN sign source")
    return VFloat(float, z3.If(z3.fpIsNegative(fy), z3.fpNeg(z3.fpAbs(fx)), z3.fpAbs(fx)))


@callm(math.isnan)
def b_isnan(run, x):
    return mk_bool(run, z3.fpIsNaN(_to_fp(run, x)))


@callm(math.isinf)
def b_isinf(run, x):
    return mk_bool(run, z3.fpIsInf(_to_fp(run, x)))


# ====================================================================== None / bytes rich comparison, foreign operands
_NoneType = type(None)
for _n in ("__lt__", "__le__", "__gt__", "__ge__"):
    METHODS[(_NoneType, _n)] = lambda run, self, other: NOTIMPL          # object's default
METHODS[(_NoneType, "__eq__")] = lambda run, self, other: (mk_bool(run, True) if isinstance(other, VNone) else NOTIMPL)
METHODS[(_NoneType, "__ne__")] = lambda run, self, other: (mk_bool(run, False) if isinstance(other, VNone) else NOTIMPL)


def _bytes_cmp(name):
    def m(run, self, other):
        if not isinstance(other, VBytes):
            return NOTIMPL
        if name == "__eq__":
            return mk_bool(run, self.t == other.t)
        if name == "__ne__":
            return mk_bool(run, self.t != other.t)
        run.overapprox = True
        run.note("bytes ordering: the outcome is abstracted to an arbitrary bool (lexicographic order is not encoded); it does not raise")
        return mk_bool(run, run.fresh("hv_bytes_order", z3.BoolSort()))
    return m


for _n in ("__lt__", "__le__", "__gt__", "__ge__"):
    METHODS[(bytes, _n)] = _bytes_cmp(_n)
for _n in ("__eq__", "__ne__"):
    METHODS.setdefault((bytes, _n), _bytes_cmp(_n))
METHODS[(str, "__rmod__")] = lambda run, self, other: NOTIMPL if not isinstance(other, VStr) else (_ for _ in ()).throw(Unsupported("str % str formatting"))
METHODS[(bytes, "__rmod__")] = lambda run, self, other: NOTIMPL if not isinstance(other, VBytes) else (_ for _ in ()).throw(Unsupported("bytes % bytes formatting"))


@method(bytes, "__mul__", "__rmul__")
def bytes_mul(run, self, other):
    if not isinstance(other, VInt):
        run.throw(TypeError, "can't multiply sequence by non-int")
    n = other.t
    if run.branch(n <= 0):
        return VBytes(bytes, b"")
    if run.branch(n == 1):
        return VBytes(bytes, self.t)
    if run.branch(n * z3.Length(self.t) > 2 ** 63 - 1):
        run.throw(OverflowError, "repeated bytes are too long")
    run.overapprox = True
    out = run.fresh("hv_repeat", BYTES)
    run.assume(z3.Length(out) == n * z3.Length(self.t))
    return VBytes(bytes, out)


# ====================================================================== datetime / timedelta (dependency: mostly opaque)
import datetime as _dt  # noqa: E402


def _dt_eq(kind):
    def m(run, self, other):
        fam = _dt.datetime if issubclass(self.cls, _dt.datetime) else _dt.timedelta
        if not (hasattr(other, "cls") and isinstance(other.cls, type) and issubclass(other.cls, fam)):
            return NOTIMPL
        if self is other:
            return mk_bool(run, kind == "eq")
        raise Unsupported("comparison of opaque datetime/timedelta values")
    return m


def _dt_foreign(name):
    """datetime / timedelta arithmetic and ordering with an operand that is neither (an error value, a CEL scalar): NotImplemented"""
    def m(run, self, other=None):
        if other is not None and hasattr(other, "cls") and isinstance(other.cls, type) and not issubclass(other.cls, (_dt.datetime, _dt.timedelta, int, float)):
            return NOTIMPL
        raise Unsupported(f"builtin {name} on opaque datetime/timedelta values")
    return m


for _K in (_dt.datetime, _dt.timedelta):
    for _n in ("__add__", "__radd__", "__sub__", "__rsub__", "__mul__", "__rmul__", "__truediv__", "__rtruediv__", "__floordiv__", "__mod__", "__divmod__",
               "__lt__", "__le__", "__gt__", "__ge__"):
        if hasattr(_K, _n):
            METHODS[(_K, _n)] = _dt_foreign(f"{_K.__name__}.{_n}")
for _K in (_dt.datetime, _dt.timedelta):
    METHODS[(_K, "__eq__")] = _dt_eq("eq")
    METHODS[(_K, "__ne__")] = _dt_eq("ne")
    METHODS[(_K, "__hash__")] = lambda run, self: VInt(int, run.fresh_int("hv_hash"))
