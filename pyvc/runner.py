"""Per-property driver: runs a property module, writes evidence, prints verdict lines, sets the exit code.

exit 0 = every obligation discharged and every stand-in passed (known findings printed)
exit 1 = at least one obligation refuted (VIOLATION line printed)
exit 2 = undecided only (solver budget / construct outside the subset)
exit 3 = checker problem (crash, zero obligations, cross-check mismatch, refutation that does not replay)
"""
from __future__ import annotations

import argparse
import importlib
import json
import os
import sys
import time
import traceback

from . import verify
from .verify import Report

VERIF = verify.VERIF


def load_known(prop):
    path = os.path.join(VERIF, "known_findings.json")
    if not os.path.exists(path):
        return []
    with open(path) as f:
        data = json.load(f)
    return [k for k in data.get("findings", []) if k.get("property") == prop and k.get("status", "open") == "open"]


def write_replay(prop, n, rec):
    d = os.environ.get("PYVC_REPLAY_DIR") or os.path.join(VERIF, "replays")
    os.makedirs(d, exist_ok=True)
    path = os.path.join(d, f"{prop}-{n}.json")
    with open(path, "w") as f:
        json.dump(rec, f, indent=1, default=str)
    return path


def main(argv=None):
    ap = argparse.ArgumentParser()
    ap.add_argument("prop")
    ap.add_argument("--tier", default=os.environ.get("VERIF_TIER", "quick"))
    ap.add_argument("--replay")
    ap.add_argument("--verbose", "-v", action="store_true")
    a = ap.parse_args(argv)
    prop = a.prop.upper()
    tier = a.tier if a.tier in ("quick", "thorough") else "quick"
    seed = int(os.environ.get("VERIF_SEED", "0") or 0)
    os.environ["VERIF_TIER_EFFECTIVE"] = tier
    import logging
    logging.disable(logging.CRITICAL)      # the library logs handled errors at ERROR level; keep the check's output readable
    t0 = time.time()
    if a.replay:
        with open(a.replay) as f:
            rec = json.load(f)
        print(json.dumps(rec, indent=1))
        mod = importlib.import_module(f"props.{prop.lower()}")
        if hasattr(mod, "replay"):
            return mod.replay(rec)
        return 0
    import glob
    rdir = os.environ.get("PYVC_REPLAY_DIR") or os.path.join(VERIF, "replays")
    for old in glob.glob(os.path.join(rdir, f"{prop}-*.json")):
        os.remove(old)
    rep = Report(prop)
    level = "proof"
    meta = {}
    try:
        mod = importlib.import_module(f"props.{prop.lower()}")
        level = getattr(mod, "LEVEL", "proof")
        known = load_known(prop)
        meta = mod.build(rep, tier=tier, seed=seed, known=known) or {}
        rep.known_by_id = {k["obligation"]: k for k in known if k.get("obligation")}
        rep.known_list = known
    except Exception as ex:
        rep.errors.append(f"property module crashed: {ex!r}\n{traceback.format_exc()}")
    code = finish(rep, prop, tier, seed, level, meta, t0, verbose=a.verbose)
    return code


def finish(rep, prop, tier, seed, level, meta, t0, verbose=False):
    n_replay = 0
    violations = []
    undecided = []
    unsound = []
    known_by_id = getattr(rep, "known_by_id", {})
    region_hits = {}
    for o in rep.obls:
        fid = getattr(o, "finding_id", None)
        if o.status == "refuted" and fid and (o.replay or {}).get("confirmed"):
            region_hits.setdefault(fid, []).append(o)
            o.status = "known-finding"
    for fid, hits in region_hits.items():
        kf = next((k for k in getattr(rep, "known_list", []) if k.get("id") == fid), None)
        what = kf["what"] if kf else fid
        rep.known_printed.append(f"{what} [{len(hits)} inputs of this run lie in the finding's region, e.g. {hits[0].id}]")
    for o in rep.obls:
        if o.status == "refuted" and o.id in known_by_id and (o.replay or {}).get("confirmed"):
            # a listed finding, re-confirmed on this run by its specific failing input
            kf = known_by_id[o.id]
            rep.known_printed.append(f"{kf['what']} [obligation {o.id}]")
            o.status = "known-finding"
            continue
        if o.status == "refuted":
            r = o.replay
            rec = {"property": prop, "obligation": o.id, "kind": o.kind, "clause": o.desc, "solver": o.backend,
                   "model": o.model, "detail": o.detail, "replay": r}
            if r is not None and r.get("replayed") and not r.get("confirmed"):
                unsound.append(o)
                continue
            n_replay += 1
            path = write_replay(prop, n_replay, rec)
            tail = "" if (r is not None and r.get("confirmed")) or o.kind in ("B",) and o.detail else " no-failing-input-found"
            if r is None and o.detail and o.kind in ("E", "B", "F", "G"):
                tail = "" if o.model or "input" in (o.detail or "") else " no-failing-input-found"
            violations.append((o, path, tail))
        elif o.status in ("undecided", "error"):
            undecided.append(o)
    for kf in rep.known_printed:
        print(f"KNOWN-FINDING: property={prop} {kf}")
    for o, path, tail in violations:
        print(f"VIOLATION property={prop} replay={path} obligation={o.id}{tail}")
    deductive = [o for o in rep.obls if o.kind != "B" and o.status != "known-finding"]
    discharged = [o for o in deductive if o.status == "discharged"]
    by_kind = {}
    by_backend = {}
    for o in rep.obls:
        by_kind.setdefault(o.kind, [0, 0])
        by_kind[o.kind][0] += 1
        if o.status == "discharged":
            by_kind[o.kind][1] += 1
            by_backend[o.backend or "?"] = by_backend.get(o.backend or "?", 0) + 1
    samples = rep.samples[:8]
    if not samples:
        samples = [{"obligation": o.id, "kind": o.kind, "clause": o.desc[:300], "verdict": o.status} for o in rep.obls[:4]]
    coverage = {
        "obligations": len(deductive),
        "discharged": len(discharged),
        "checker_cmd": f"./check {prop} --tier {tier}",
        "trusted_base": sorted(rep.trusted),
        "per_kind": {k: {"generated": v[0], "discharged": v[1]} for k, v in sorted(by_kind.items())},
        "per_backend": by_backend,
        "solver_s": round(rep.solver_s, 3),
        "functions_under_contract": rep.functions,
        "paths_cross_checked_against_cpython": rep.crosschecked,
        "paths_not_cross_checked": getattr(rep, "crosscheck_skipped", 0),
        "bounded_standins": rep.bounded,
        "samples": samples,
        "refuted": [o.id for o, _, _ in violations],
        "undecided": [{"id": o.id, "why": o.detail} for o in undecided][:40],
        "known_findings_printed": rep.known_printed,
        "evaluations": len(rep.obls) + sum(b.get("cases", 0) for b in rep.bounded),
        "distinct_nontrivial": len({o.id for o in rep.obls if o.backend not in (None, "syntactic")}),
        "rule": "one obligation per (function, operand-class combination, execution path, contract clause); "
                "non-trivial = needed a solver query, a table lookup or a path-existence check",
    }
    coverage.update(meta.get("coverage", {}) if isinstance(meta, dict) else {})
    ev = {
        "property_id": prop,
        "tier": tier,
        "seed": seed,
        "level": level,
        "coverage": coverage,
        "assumptions": sorted(rep.assumptions | set(meta.get("assumptions", []) if isinstance(meta, dict) else [])),
        "wall_s": round(time.time() - t0, 2),
        "violations": len(violations),
    }
    evdir = os.environ.get("PYVC_EVIDENCE_DIR") or os.path.join(VERIF, "evidence")
    os.makedirs(evdir, exist_ok=True)
    with open(os.path.join(evdir, f"{prop}.json"), "w") as f:
        json.dump(ev, f, indent=1, default=str)
    print(f"[{prop}] tier={tier} obligations={len(deductive)} discharged={len(discharged)} "
          f"refuted={len(violations)} undecided={len(undecided)} errors={len(rep.errors)} "
          f"crosschecked={rep.crosschecked} (skipped {getattr(rep, 'crosscheck_skipped', 0)}) mismatches={len(rep.crosscheck_mismatch)} "
          f"bounded={len(rep.bounded)} wall={ev['wall_s']}s")
    if verbose or undecided or rep.errors or unsound or rep.crosscheck_mismatch:
        for o in undecided[:30]:
            print(f"  UNDECIDED {o.id}: {o.detail or o.desc}")
        for e in rep.errors[:10]:
            print(f"  ERROR {e}")
        for o in unsound[:10]:
            print(f"  UNSOUND-ENGINE {o.id}: refutation does not replay natively: {o.replay}")
        for m in rep.crosscheck_mismatch[:10]:
            print(f"  CROSSCHECK-MISMATCH {m}")
    if violations:
        return 1
    if rep.errors or unsound or rep.crosscheck_mismatch or not rep.obls:
        return 3
    if undecided:
        return 2
    return 0


if __name__ == "__main__":
    sys.exit(main())
