"""Contracts, obligation generation/discharge, CPython cross-check, replay and evidence."""
from __future__ import annotations

import importlib
import inspect
import json
import math
import os
import subprocess
import sys
import tempfile
import time
import traceback

import z3

from . import symexec as se
from .values import *  # noqa
from .values import SV, VInt, VFloat, VStr, VBytes, VNone, NONE, VNative, VList, VTuple, VDict, VSet, VObj, VOpaque, FP

VERIF = os.path.dirname(os.path.dirname(os.path.abspath(__file__)))
SOLVER_TIMEOUT_MS = int(os.environ.get("PYVC_TIMEOUT_MS", "30000"))


# =========================================================================== domains
class Dom:
    """A domain of argument values: make(run, name) -> SV (adding the type invariant to the path condition)."""
    label = "?"

    def make(self, run, name):
        raise NotImplementedError


def _wrap_int(cls, n):
    return n if cls is int else (bool(n) if cls is bool else int.__new__(cls, n))


class IntDom(Dom):
    def __init__(self, cls, lo=None, hi=None, label=None):
        self.cls, self.lo, self.hi = cls, lo, hi
        self.label = label or cls.__name__

    def samples(self):
        lo = self.lo if self.lo is not None else -(2 ** 70)
        hi = self.hi if self.hi is not None else 2 ** 70
        c = {lo, lo + 1, lo + 2, hi - 1, hi - 2, hi - 3, 0, 1, -1, 2, -2, 3, -3, 7, -7, 10, -10}
        for k in (7, 8, 15, 16, 31, 32, 52, 53, 54, 62, 63, 64):
            for d in (-1, 0, 1):
                c |= {2 ** k + d, -(2 ** k) + d}
        c |= {(hi - 1) // 2, (hi - 1) // 3, lo // 2, 3074457345618258602, 1234567890123456789, -987654321987654321}
        return [_wrap_int(self.cls, n) for n in sorted(c) if lo <= n < hi]

    def make(self, run, name):
        t = z3.Int(name)
        if self.lo is not None:
            run.assume(t >= self.lo)
        if self.hi is not None:
            run.assume(t < self.hi)
        return VInt(self.cls, t)


class BoolDom(Dom):
    def __init__(self, cls):
        self.cls = cls
        self.label = cls.__name__

    def samples(self):
        return [_wrap_int(self.cls, 0), _wrap_int(self.cls, 1)]

    def make(self, run, name):
        t = z3.Int(name)
        run.assume(z3.Or(t == 0, t == 1))
        return VInt(self.cls, t)


class FloatDom(Dom):
    def __init__(self, cls, nan=True):
        self.cls = cls
        self.nan = nan
        self.label = cls.__name__

    def samples(self):
        xs = [0.0, -0.0, 1.0, -1.0, 1.5, -2.5, 0.1, 3.0, float("inf"), float("-inf"), 1e308, -1e308, 5e-324,
              2.0 ** 53, 2.0 ** 63, -(2.0 ** 63), 2.0 ** 64, 1e-9, 1.0000000005]
        if self.nan:
            xs.append(float("nan"))
        return [x if self.cls is float else float.__new__(self.cls, x) for x in xs]

    def make(self, run, name):
        t = z3.FP(name, FP)
        if not self.nan:
            run.assume(z3.Not(z3.fpIsNaN(t)))
        return VFloat(self.cls, t)


class StrDom(Dom):
    def __init__(self, cls):
        self.cls = cls
        self.label = cls.__name__

    def samples(self):
        xs = ["", "a", "b", "ab", "A", "\u00e9", "\U0001f431", "a\nb", "0", "true", "\ufeffabc", "\ufeff", "a\ufeff", "\x00", "\ud7ff\ue000"]
        return [x if self.cls is str else str.__new__(self.cls, x) for x in xs]

    def make(self, run, name):
        return VStr(self.cls, z3.String(name))


class BytesDom(Dom):
    def __init__(self, cls):
        self.cls = cls
        self.label = cls.__name__

    def samples(self):
        xs = [b"", b"a", b"ab", b"\x00", b"\xff\xfe", b"b"]
        return [x if self.cls is bytes else bytes.__new__(self.cls, x) for x in xs]

    def make(self, run, name):
        return VBytes(self.cls, z3.Const(name, se.BYTES))


class NoneDom(Dom):
    label = "None"

    def samples(self):
        return [None]

    def make(self, run, name):
        return NONE


class ConstDom(Dom):
    def __init__(self, obj, label=None):
        self.obj = obj
        self.label = label or repr(obj)

    def samples(self):
        return [self.obj]

    def make(self, run, name):
        return se.lift(self.obj)


class ObjDom(Dom):
    """An opaque heap object of a given class (e.g. a CELEvalError value) with given attrs."""

    def __init__(self, cls, attrs=None, label=None, native=None):
        self.cls = cls
        self.attrs = attrs or {}
        self.label = label or cls.__name__
        self.native = native

    def samples(self):
        if self.native is not None:
            return [self.native()]
        if issubclass(self.cls, BaseException):
            return [self.cls("sample error")]
        raise NotImplementedError

    def make(self, run, name):
        return VObj(self.cls, {k: (v.make(run, f"{name}.{k}") if isinstance(v, Dom) else v)
                               for k, v in self.attrs.items()}, label=name)


class FnDom(Dom):
    def __init__(self, fn, label, native=None):
        self.fn = fn
        self.label = label
        self.native = native

    def samples(self):
        if self.native is None:
            raise NotImplementedError
        return list(self.native())

    def make(self, run, name):
        return self.fn(run, name)


# =========================================================================== results
class Obl:
    def __init__(self, oid, kind, func, desc):
        self.id = oid
        self.kind = kind
        self.func = func
        self.desc = desc
        self.status = "undecided"   # discharged | refuted | undecided | error
        self.backend = None
        self.time = 0.0
        self.detail = ""
        self.model = None
        self.replay = None
        self.known = None

    def to_json(self):
        return {k: v for k, v in self.__dict__.items() if v is not None}


class Report:
    def __init__(self, prop):
        self.prop = prop
        self.obls = []
        self.functions = {}
        self.assumptions = set()
        self.trusted = set()
        self.bounded = []
        self.crosschecked = 0
        self.crosscheck_mismatch = []
        self.known_printed = []
        self.violations = []
        self.errors = []
        self.t0 = time.time()
        self.solver_s = 0.0
        self.samples = []

    def add(self, o):
        self.obls.append(o)
        return o

    def merge(self, other):
        self.obls.extend(other.obls)
        self.functions.update(other.functions)
        self.assumptions |= other.assumptions
        self.trusted |= other.trusted
        self.bounded.extend(other.bounded)
        self.crosschecked += other.crosschecked
        self.crosscheck_skipped = getattr(self, "crosscheck_skipped", 0) + getattr(other, "crosscheck_skipped", 0)
        self.crosscheck_mismatch.extend(other.crosscheck_mismatch)
        self.errors.extend(other.errors)
        self.solver_s += other.solver_s
        self.samples.extend(other.samples)


# =========================================================================== solving
def model_to_dict(m):
    out = {}
    for d in m.decls():
        v = m[d]
        out[d.name()] = val_to_py(v)
    return out


def val_to_py(v):
    try:
        if z3.is_int_value(v):
            return v.as_long()
        if z3.is_fp_value(v):
            return se.fp_to_py(v).hex() if not v.isNaN() else "nan"
        if z3.is_string_value(v):
            return se.zstr_to_py(v)
        if z3.is_true(v):
            return True
        if z3.is_false(v):
            return False
        b = se.zbytes_to_py(v)
        if b is not None:
            return {"bytes": b.hex()}
    except Exception:
        pass
    return str(v)


def valid(pc, goal, timeout_ms=None):
    """-> (status, model|None, backend, seconds).  status in discharged/refuted/undecided."""
    t0 = time.time()
    if isinstance(goal, bool):
        if goal:
            return "discharged", None, "syntactic", 0.0
        goal = z3.BoolVal(False)
    s = z3.Solver()
    s.set("timeout", timeout_ms or SOLVER_TIMEOUT_MS)
    for c in pc:
        s.add(c)
    s.add(z3.Not(goal))
    r = s.check()
    dt = time.time() - t0
    if r == z3.unsat:
        return "discharged", None, "z3", dt
    if r == z3.sat:
        return "refuted", s.model(), "z3", dt
    # unknown: try cvc5 on the exported query
    st = cvc5_check(s)
    dt = time.time() - t0
    if st == "unsat":
        return "discharged", None, "cvc5", dt
    return "undecided", None, "z3+cvc5", dt


def cvc5_check(solver, timeout_s=30):
    try:
        smt = solver.to_smt2()
    except Exception:
        return "error"
    if "FloatingPoint" in smt or "fp." in smt:
        logic = "ALL"
    else:
        logic = "ALL"
    text = f"(set-logic {logic})\n" + smt
    try:
        with tempfile.NamedTemporaryFile("w", suffix=".smt2", delete=False) as f:
            f.write(text)
            path = f.name
        p = subprocess.run(["/usr/bin/cvc5", "--strings-exp", f"--tlimit={timeout_s * 1000}", path],
                           capture_output=True, text=True, timeout=timeout_s + 5)
        os.unlink(path)
        out = p.stdout.strip().splitlines()
        return out[0] if out else "error"
    except Exception:
        return "error"


# =========================================================================== concretisation under a model
def conc_under(v, m):
    """SV -> native python object, evaluating symbolic payloads in model m."""
    if isinstance(v, VInt):
        n = m.eval(v.t, model_completion=True).as_long()
        if v.cls is int:
            return n
        if v.cls is bool:
            return bool(n)
        return int.__new__(v.cls, n)
    if isinstance(v, VFloat):
        x = se.fp_to_py(m.eval(v.t, model_completion=True))
        return x if v.cls is float else float.__new__(v.cls, x)
    if isinstance(v, VStr):
        s = se.zstr_to_py(m.eval(v.t, model_completion=True))
        return s if v.cls is str else str.__new__(v.cls, s)
    if isinstance(v, VBytes):
        b = se.zbytes_to_py(z3.simplify(m.eval(v.t, model_completion=True)))
        if b is None:
            raise se.NotConcrete
        return b if v.cls is bytes else bytes.__new__(v.cls, b)
    if isinstance(v, VNone):
        return None
    if isinstance(v, VNative):
        return v.obj
    if isinstance(v, VTuple):
        return tuple(conc_under(i, m) for i in v.items)
    if isinstance(v, VList):
        items = [conc_under(i, m) for i in v.items]
        if v.cls is list:
            return items
        r = list.__new__(v.cls)
        list.__init__(r, items)
        return r
    if isinstance(v, VDict):
        r = dict.__new__(v.cls)
        for k, x in v.pairs:
            dict.__setitem__(r, conc_under(k, m), conc_under(x, m))
        return r
    if type(v) in NATIVE_BUILDERS:
        return NATIVE_BUILDERS[type(v)](v, m)
    if isinstance(v, VObj):
        mk = NATIVE_BUILDERS.get(v.cls)
        if mk is not None:
            return mk(v, m)
        if issubclass(v.cls, BaseException):
            args = v.attrs.get("args", VTuple([]))
            try:
                a = tuple(_safe_conc(i, m) for i in args.items)
            except Exception:
                a = ()
            try:
                return v.cls(*a)
            except Exception:
                e = v.cls.__new__(v.cls)
                return e
    raise se.NotConcrete(repr(v))


def _safe_conc(v, m):
    try:
        return conc_under(v, m)
    except Exception:
        return "<symbolic>"


NATIVE_BUILDERS = {}


def describe(o):
    try:
        if isinstance(o, float):
            return f"{type(o).__name__}({float.__repr__(o)}; hex {float.hex(o)})"
        return f"{type(o).__name__}:{o!r}"
    except Exception as ex:  # repr itself may be broken - that is C04's business
        return f"{type(o).__name__}:<repr raised {type(ex).__name__}>"


def same_value(a, b):
    """Native structural equality that does not go through repository __eq__."""
    if type(a) is not type(b):
        return False
    if isinstance(a, float):
        return (math.isnan(a) and math.isnan(b)) or (float.__eq__(a, b) and math.copysign(1, a) == math.copysign(1, b))
    if isinstance(a, int):
        return int.__eq__(a, b)
    if isinstance(a, str):
        return str.__eq__(a, b)
    if isinstance(a, bytes):
        return bytes.__eq__(a, b)
    if isinstance(a, (list, tuple)):
        la, lb = list(a), list(b)
        return len(la) == len(lb) and all(same_value(x, y) for x, y in zip(la, lb))
    if isinstance(a, dict):
        ka, kb = list(dict.keys(a)), list(dict.keys(b))
        return len(ka) == len(kb) and all(same_value(x, y) for x, y in zip(ka, kb)) and \
            all(same_value(dict.__getitem__(a, x), dict.__getitem__(b, y)) for x, y in zip(ka, kb))
    if isinstance(a, BaseException):
        return True
    return a is b or a == b


# =========================================================================== contracts
class Contract:
    """Contract on one repository function.

    target   : "module:Qual.name" of the real function (resolved on the live module)
    args     : list of (name, Dom or [Dom, ...])  - alternatives are case-split (one exploration each)
    invoke   : optional fn(run, S) -> SV performing the call (default: call target with args in order)
    native   : optional fn(N) -> value performing the same call natively on native args N (dict)
    ret      : fn(S, r) -> z3 Bool / bool : postcondition of normal return
    exc      : {ExcClass: fn(S) -> z3 Bool / bool} : allowed exceptional exits and when
    requires : optional fn(S) -> z3 Bool, extra precondition
    """

    def __init__(self, target, args, ret=None, exc=None, invoke=None, native=None, requires=None, prop=None,
                 name=None, cover=True, note=None, setup=None, max_paths=None):
        self.target = target
        self.args = args
        self.ret = ret
        self.exc = exc or {}
        self.invoke = invoke
        self.native = native
        self.requires = requires
        self.prop = prop
        self.name = name or target
        self.cover = cover
        self.note = note
        self.setup = setup
        self.max_paths = max_paths
        self.witnesses = None

    def resolve(self):
        modname, qual = self.target.split(":")
        mod = importlib.import_module(modname)
        obj = mod
        owner = None
        for part in qual.split("."):
            owner = obj
            if isinstance(obj, type):
                obj = obj.__dict__[part] if part in obj.__dict__ else getattr(obj, part)
            else:
                obj = getattr(obj, part)
        return obj, owner


class S:
    """Bag of the symbolic arguments of one exploration (attribute access by parameter name)."""

    def __init__(self, d):
        self.__dict__.update(d)


def clause_text(fn):
    if fn is None:
        return None
    if isinstance(fn, bool):
        return str(fn)
    try:
        src = inspect.getsource(fn).strip()
        return " ".join(src.split())[:400]
    except Exception:
        return repr(fn)


def expand_alternatives(args):
    combos = [[]]
    for name, dom in args:
        doms = dom if isinstance(dom, (list, tuple)) else [dom]
        combos = [c + [(name, d)] for c in combos for d in doms]
    return combos


def check_contract(con: Contract, rep: Report, engine=None, crosscheck=True, known=None):
    """Explore the target for every class combination, generate and discharge obligations."""
    engine = engine or se.Engine()
    try:
        target, owner = con.resolve()
    except Exception as ex:
        rep.errors.append(f"{con.target}: cannot resolve target: {ex!r}")
        return
    raw = target
    if isinstance(raw, (staticmethod, classmethod)):
        raw = raw.__func__
    fn_for_src = raw
    while hasattr(fn_for_src, "__wrapped__") and not engine.sources.is_repo_function(fn_for_src):
        fn_for_src = fn_for_src.__wrapped__
    if hasattr(fn_for_src, "__code__") and engine.sources.is_repo_function(fn_for_src):
        try:
            node, ms = engine.sources.node_for_function(fn_for_src)
            inner = getattr(fn_for_src, "__wrapped__", None)
            span = ms.span(node)
            if inner is not None and engine.sources.is_repo_function(inner):
                n2, ms2 = engine.sources.node_for_function(inner)
                span = {"wrapper": ms.span(node), "wrapped": ms2.span(n2)}
            rep.functions[con.name] = {"target": con.target, "file": ms.path, "lines": span, "sha256": ms.sha256}
        except Exception as ex:
            rep.errors.append(f"{con.target}: no AST: {ex!r}")
            return
    else:
        rep.functions[con.name] = {"target": con.target, "file": None, "note": "non-function target"}

    exits_seen = set()
    n_obl_before = len(rep.obls)
    for combo in expand_alternatives(con.args):
        label = ",".join(f"{n}:{d.label}" for n, d in combo)
        holder = {}

        def thunk(run, combo=combo):
            vals = {}
            for n, d in combo:
                vals[n] = d.make(run, n)
            s = S(vals)
            s._run = run
            holder[id(run)] = s
            run.sargs = s
            if con.setup:
                con.setup(run, s)
            if con.requires is not None:
                run.assume(con.requires(s))
            if con.invoke is not None:
                return con.invoke(run, s)
            return run.call(VNative(raw), [vals[n] for n, _ in combo])

        try:
            paths = engine.explore(thunk, con.max_paths)
        except se.Unsupported as u:
            o = rep.add(Obl(f"{con.name}[{label}]", "U", con.name, f"exploration failed: {u}"))
            o.detail = str(u)
            bounded_standin(con, raw, combo, rep, label)
            continue
        except Exception as ex:
            rep.errors.append(f"{con.name}[{label}]: executor crash: {ex!r}\n{traceback.format_exc()}")
            continue
        if any(p.kind == "unsupported" for p in paths) or os.environ.get("VERIF_TIER_EFFECTIVE") == "thorough":
            bounded_standin(con, raw, combo, rep, label,
                            limit=20000 if os.environ.get("VERIF_TIER_EFFECTIVE") == "thorough" else 4000)
        undecided_here = False
        for pi, p in enumerate(paths):
            s = p.run.sargs if hasattr(p.run, "sargs") else None
            rep.assumptions |= p.run.assumptions
            oid = f"{con.name}[{label}]#p{pi}"
            if p.kind == "unsupported":
                o = rep.add(Obl(oid, "U", con.name, "path left the supported subset"))
                o.detail = p.value
                continue
            if p.kind == "return":
                exits_seen.add("return")
                if con.ret is None:
                    o = rep.add(Obl(oid, "R", con.name, "normal return not allowed by the contract"))
                    goal = False
                else:
                    o = rep.add(Obl(oid, "P", con.name, f"return: {clause_text(con.ret)}"))
                    try:
                        goal = con.ret(s, p.value)
                    except se.Unsupported as u:
                        o.detail = f"postcondition not expressible: {u}"
                        continue
            else:
                ecls = p.value.cls
                declared = None
                for K in ecls.__mro__:
                    if K in con.exc:
                        declared = K
                        break
                exits_seen.add(declared or ecls)
                if declared is None:
                    o = rep.add(Obl(oid, "R", con.name, f"raise-envelope: {ecls.__name__} is not a declared exit"))
                    goal = False
                else:
                    o = rep.add(Obl(oid, "X", con.name, f"raises {declared.__name__}: {clause_text(con.exc[declared])}"))
                    goal = con.exc[declared](s)
            pc = p.pc
            regions = []
            if known:
                for kf in known:
                    if kf.get("function") == con.name and "region_fn" in kf and kf.get("exit", p.kind) == p.kind:
                        regions.append(kf)
            extra = []
            for kf in regions:
                extra.append(z3.Not(kf["region_fn"](s)))
            st, model, backend, dt = valid(pc + extra, goal)
            rep.solver_s += dt
            o.status, o.backend, o.time = st, backend, round(dt, 4)
            if regions:
                o.known = [kf["id"] for kf in regions]
                o.desc += " [outside known-finding regions: " + "; ".join(kf["region"] for kf in regions) + "]"
            if st == "refuted":
                o.model = model_to_dict(model)
                o.replay = replay_refutation(con, raw, combo, s, p, model, goal)
                if getattr(p.run, "overapprox", False) and o.replay.get("replayed") and not o.replay.get("confirmed"):
                    # the path went through an over-approximated builtin model (arbitrary decoded text, abstracted float value ...):
                    # a counter-model that does not replay is an artefact of the abstraction, not of the code -> undecided, then search
                    o.status = st = "undecided"
                    o.detail = "refuted only under an over-approximated builtin model; the counter-model does not replay on CPython"
            elif st == "discharged" and crosscheck and con.native is not False and getattr(p.run, "overapprox", False):
                rep.crosscheck_skipped = getattr(rep, "crosscheck_skipped", 0) + 1     # nondeterministic model: no single native run corresponds
            elif st == "discharged" and crosscheck and con.native is not False:
                crosscheck_path(con, raw, combo, s, p, rep, oid)
            for ai, (apc, aform, alabel) in enumerate(getattr(p.run, "asserts", [])):
                ao = rep.add(Obl(f"{oid}#inv{ai}", "I", con.name, alabel))
                ast_, amodel, abackend, adt = valid(apc, aform)
                rep.solver_s += adt
                ao.status, ao.backend, ao.time = ast_, abackend, round(adt, 4)
                if ast_ == "refuted":
                    ao.model = model_to_dict(amodel)
            if st == "undecided":
                undecided_here = True
            if len(rep.samples) < 6 and st == "discharged":
                rep.samples.append({"obligation": oid, "kind": o.kind, "clause": o.desc[:300], "verdict": st,
                                    "backend": backend, "seconds": round(dt, 4)})
        if undecided_here and not any(p.kind == "unsupported" for p in paths) and os.environ.get("VERIF_TIER_EFFECTIVE") != "thorough":
            # the solver gave up on a path: the obligation stays undecided, but a real failing input - if the boundary grid has
            # one - is a violation in its own right (bounded stand-in, never counted as proved)
            bounded_standin(con, raw, combo, rep, label)
    if con.cover:
        wanted = (["return"] if con.ret is not None else []) + list(con.exc.keys())
        for w in wanted:
            nm = w if isinstance(w, str) else w.__name__
            o = rep.add(Obl(f"{con.name}#cover:{nm}", "C", con.name, f"declared exit {nm} is reachable"))
            if w in exits_seen:
                o.status, o.backend = "discharged", "path-exists"
            else:
                o.status = "undecided"
                o.detail = "declared exit never reached: contract clause vacuous"
    if len(rep.obls) == n_obl_before:
        rep.errors.append(f"{con.name}: zero obligations generated")


def holds_concretely(goal):
    if isinstance(goal, bool):
        return goal
    g = z3.simplify(goal)
    if z3.is_true(g):
        return True
    if z3.is_false(g):
        return False
    sol = z3.Solver()
    sol.set("timeout", 5000)
    sol.add(z3.Not(g))
    r = sol.check()
    if r == z3.unsat:
        return True
    if r == z3.sat:
        return False
    raise se.Unsupported("clause not decidable on concrete values")


def lift_structured(obj, memo):
    """lift for run-time clause checking: one SV per native object (clauses may compare identities) and exception
    instances as structured objects (clauses classify error values by class)"""
    if isinstance(obj, (bool, type(None))) or obj is NotImplemented:
        return se.lift(obj)
    k = id(obj)
    if k in memo:
        return memo[k][1]
    if isinstance(obj, BaseException):
        v = VObj(type(obj), {"args": VTuple([lift_structured(a, memo) for a in obj.args])}, label="native exception")
    elif type(obj) is tuple:
        v = VTuple([lift_structured(x, memo) for x in obj])
    elif isinstance(obj, list):
        v = se.VList(type(obj), [lift_structured(x, memo) for x in list.__iter__(obj)])
    elif isinstance(obj, dict) and (type(obj) is dict or type(obj).__module__.startswith("celpy.celtypes")):
        v = VDict(type(obj), [[lift_structured(k_, memo), lift_structured(x, memo)] for k_, x in dict.items(obj)], dict(getattr(obj, "__dict__", {})))
    else:
        v = se.lift(obj)
    memo[k] = (obj, v)        # keep obj alive: ids must stay unique
    return v


def clause_on_native(con, nargs, kind, val):
    memo = {}
    cs = S({n: lift_structured(v, memo) for n, v in nargs.items()})
    if kind == "return":
        if con.ret is None:
            return False
        return holds_concretely(con.ret(cs, lift_structured(val, memo)))
    declared = None
    for K in type(val).__mro__:
        if K in con.exc:
            declared = K
            break
    return False if declared is None else holds_concretely(con.exc[declared](cs))


def bounded_standin(con, raw, combo, rep, label, limit=4000, seed=0):
    if con.native is False and getattr(con, "witnesses", None):
        # a contract over abstract inputs: its stand-in is the list of representative concrete programs attached to it
        n, failures = 0, []
        for wl, fn in con.witnesses:
            n += 1
            try:
                ok, observed = fn()
            except BaseException as ex:   # noqa
                ok, observed = False, f"raised {type(ex).__name__}: {ex}"
            if not ok:
                failures.append({"witness": wl, "observed": str(observed)[:400]})
        rep.bounded.append({"function": con.name, "label": label, "cases": n, "distinct_nontrivial": n, "failures": len(failures),
                            "bound": "the representative concrete programs attached to the contract (run when the symbolic exploration is undecided)"})
        if failures:
            o = rep.add(Obl(f"{con.name}[{label}]#bounded", "B", con.name, "bounded stand-in: representative programs of the obligation family"))
            o.status, o.backend = "refuted", "cpython"
            o.detail = "failing input: " + repr(failures[0])[:500]
            o.replay = {"replayed": True, "confirmed": True, "inputs": failures[0], "more": failures[1:4]}
        return None
    if con.native is False or getattr(con, "standin", True) is False:
        return None       # no native thunk, or the clauses talk about the symbolic structure of the result (not checkable on plain values)
    return _bounded_standin(con, raw, combo, rep, label, limit, seed)


def _bounded_standin(con, raw, combo, rep, label, limit=4000, seed=0):
    """Run-time check of the same contract clauses on a boundary-value grid of native inputs (labelled bounded;
    never counted as proved).  A failing case is a real failing input, hence a confirmed violation."""
    import itertools
    import random
    try:
        pools = [d.samples() for _, d in combo]
    except (NotImplementedError, AttributeError):
        return None
    total = 1
    for p_ in pools:
        total *= max(len(p_), 1)
    rng = random.Random(seed)
    if total <= limit:
        cases = itertools.product(*pools)
    else:
        cases = (tuple(rng.choice(p_) for p_ in pools) for _ in range(limit))
    n = 0
    distinct = set()
    failures = []
    for case in cases:
        nargs = {nm: v for (nm, _), v in zip(combo, case)}
        if con.requires is not None:
            try:
                if not holds_concretely(con.requires(S({k: se.lift(v) for k, v in nargs.items()}))):
                    continue
            except Exception:
                continue
        kind, val = outcome_native(con, raw, combo, nargs)
        n += 1
        distinct.add(repr([describe(v) for v in case]))
        try:
            ok = clause_on_native(con, nargs, kind, val)
        except Exception as ex:
            continue
        if not ok:
            failures.append({"inputs": {k: describe(v) for k, v in nargs.items()}, "observed": f"{kind} {describe(val)}"})
            if len(failures) >= 3:
                break
    rep.bounded.append({"function": con.name, "classes": label, "bound": f"boundary-value grid, <= {limit} cases",
                        "cases": n, "distinct_nontrivial": len(distinct), "failures": len(failures)})
    if failures:
        o = rep.add(Obl(f"{con.name}[{label}]#bounded", "B", con.name,
                        "bounded stand-in: contract clause checked at run time on boundary inputs"))
        o.status, o.backend = "refuted", "cpython"
        o.detail = "failing input: " + json.dumps(failures[0])
        o.replay = {"function": con.target, "contract": con.name, "replayed": True, "confirmed": True,
                    "inputs": failures[0]["inputs"], "observed": failures[0]["observed"], "more": failures[1:]}
    return failures


def native_call(con, raw, combo, nargs):
    if con.native is not None:
        return con.native(nargs)
    return raw(*[nargs[n] for n, _ in combo])


def outcome_native(con, raw, combo, nargs):
    try:
        return "return", native_call(con, raw, combo, nargs)
    except BaseException as ex:  # noqa
        return "raise", ex


def replay_refutation(con, raw, combo, s, p, model, goal):
    """Replay a counter-model against the real code; returns a replay record (dict)."""
    rec = {"function": con.target, "contract": con.name, "model": model_to_dict(model)}
    if con.native is False:
        rec["replayed"] = False
        rec["why"] = "obligation is over an abstract (unbounded) input; no single native input corresponds to the model"
        # representative concrete inputs of the obligation family, run against the real code
        for label, fn in getattr(con, "witnesses", None) or []:
            try:
                ok, observed = fn()
            except BaseException as ex:   # noqa
                ok, observed = False, f"raised {type(ex).__name__}: {ex}"
            if not ok:
                rec.update({"replayed": True, "confirmed": True, "inputs": {"witness": label}, "observed": str(observed)[:500]})
                break
        return rec
    try:
        nargs = {n: conc_under(getattr(s, n), model) for n, _ in combo}
    except Exception as ex:
        rec["replayed"] = False
        rec["why"] = f"model could not be turned into native inputs: {ex!r}"
        return rec
    rec["inputs"] = {n: describe(v) for n, v in nargs.items()}
    kind, val = outcome_native(con, raw, combo, nargs)
    rec["observed"] = f"{kind} {describe(val)}"
    # evaluate the contract clause on the native outcome
    try:
        cs = S({n: se.lift(v) for n, v in nargs.items()})
        if kind == "return":
            if con.ret is None:
                ok = False
            else:
                ok = con.ret(cs, se.lift(val))
        else:
            declared = None
            for K in type(val).__mro__:
                if K in con.exc:
                    declared = K
                    break
            ok = False if declared is None else con.exc[declared](cs)
        if not isinstance(ok, bool):
            ok = z3.is_true(z3.simplify(ok))
        rec["clause_holds_natively"] = bool(ok)
        rec["replayed"] = True
        rec["confirmed"] = not ok
    except Exception as ex:
        rec["replayed"] = False
        rec["why"] = f"clause evaluation on native outcome failed: {ex!r}"
    return rec


def _has_havoc(v):
    t = getattr(v, "t", None)
    if t is None or not z3.is_expr(t):
        return False
    seen = set()
    stack = [t]
    while stack:
        e = stack.pop()
        if e.get_id() in seen:
            continue
        seen.add(e.get_id())
        if z3.is_app(e) and e.decl().kind() == z3.Z3_OP_UNINTERPRETED and e.decl().name().startswith("hv_"):
            return True
        stack.extend(e.children())
    return False


def crosscheck_path(con, raw, combo, s, p, rep, oid):
    """Engine-soundness guard: run the real function on one model of the path and compare outcomes."""
    sol = z3.Solver()
    sol.set("timeout", 5000)
    for c in p.pc:
        sol.add(c)
    if sol.check() != z3.sat:
        return
    m = sol.model()
    try:
        nargs = {n: conc_under(getattr(s, n), m) for n, _ in combo}
    except Exception as ex:
        rep.crosscheck_skipped = getattr(rep, "crosscheck_skipped", 0) + 1
        return
    kind, val = outcome_native(con, raw, combo, nargs)
    rep.crosschecked += 1
    if kind != p.kind:
        rep.crosscheck_mismatch.append(
            f"{oid}: engine says {p.kind} {p.value!r}, CPython says {kind} {describe(val)} on {nargs!r}")
        return
    if kind == "raise":
        if type(val) is not p.value.cls:
            rep.crosscheck_mismatch.append(
                f"{oid}: engine raises {p.value.cls.__name__}, CPython raises {type(val).__name__} on {nargs!r}")
        return
    if _has_havoc(p.value):
        # the engine over-approximated this value (e.g. repr text): only the class can be compared
        if type(val) is not p.value.cls:
            rep.crosscheck_mismatch.append(
                f"{oid}: engine returns a {p.value.cls.__name__}, CPython returns {describe(val)} on {nargs!r}")
        return
    try:
        expect = conc_under(p.value, m)
    except Exception:
        return
    if not same_value(expect, val):
        rep.crosscheck_mismatch.append(
            f"{oid}: engine returns {describe(expect)}, CPython returns {describe(val)} on {nargs!r}")


# =========================================================================== lemmas / tables
def lemma(rep, oid, func, desc, assumptions, goal, timeout_ms=None):
    o = rep.add(Obl(oid, "L", func, desc))
    st, model, backend, dt = valid(assumptions, goal, timeout_ms)
    rep.solver_s += dt
    o.status, o.backend, o.time = st, backend, round(dt, 4)
    if st == "refuted":
        o.model = model_to_dict(model)
    return o


def table_obl(rep, oid, func, desc, ok, detail="", kind="E"):
    o = rep.add(Obl(oid, kind, func, desc))
    o.status = "discharged" if ok else "refuted"
    o.backend = "python"
    o.detail = detail
    return o
