#!/usr/bin/env python3
"""Sensitivity self-test of the machinery: each mutant is a textual edit of a scratch copy of /repo/src
(made with mktemp outside /repo and /verif, removed at once) that keeps the code importable; the named
check must exit 1 (violation) on it -- `harmless` mutants must leave the check at exit 0.

usage: run_mutants.py [ID ...] [--prop Cxx]
"""
import json
import os
import shutil
import subprocess
import sys
import tempfile
import time

HERE = os.path.dirname(os.path.abspath(__file__))
VERIF = os.path.dirname(HERE)


def load():
    ms = []
    for fn in sorted(os.listdir(HERE)):
        if fn.startswith("mutants_") and fn.endswith(".json"):
            ms += json.load(open(os.path.join(HERE, fn)))
    return ms


def run_one(m):
    d = tempfile.mkdtemp(prefix="pyvc_mut_")
    try:
        shutil.copytree("/repo/src", os.path.join(d, "src"))
        p = os.path.join(d, "src", m["file"])
        s = open(p).read()
        cnt = s.count(m["old"])
        if cnt < 1 or (cnt != 1 and not m.get("all")):
            return "BAD-MUTANT", f"pattern occurs {cnt} times"
        s = s.replace(m["old"], m["new"]) if m.get("all") else s.replace(m["old"], m["new"], 1)
        open(p, "w").write(s)
        env = dict(os.environ, PYTHONPATH=os.path.join(d, "src"), PYVC_REPO_SRC=os.path.join(d, "src"),
                   PYVC_EVIDENCE_DIR=os.path.join(d, "evidence"), PYVC_REPLAY_DIR=os.path.join(d, "replays"))
        t0 = time.time()
        r = subprocess.run([os.path.join(VERIF, "check"), m["prop"]], env=env, capture_output=True, text=True)
        want = 0 if m.get("harmless") else 1
        ok = r.returncode == want
        tail = [l for l in r.stdout.splitlines() if l.startswith(("VIOLATION", "[", "  UNDEC", "  ERR", "  UNSOUND", "  CROSS"))]
        return ("OK" if ok else "MISSED"), f"exit={r.returncode} want={want} {time.time()-t0:.0f}s " + " | ".join(tail[:3])[:400]
    finally:
        shutil.rmtree(d, ignore_errors=True)


def main():
    args = sys.argv[1:]
    prop = None
    if "--prop" in args:
        i = args.index("--prop")
        prop = args[i + 1]
        del args[i:i + 2]
    ms = [m for m in load() if (not args or m["id"] in args) and (prop is None or m["prop"] == prop)]
    bad = 0
    for m in ms:
        st, info = run_one(m)
        print(f"{st:10} {m['id']:40} {info}", flush=True)
        bad += st != "OK"
    print(f"{len(ms) - bad}/{len(ms)} as expected")
    return 1 if bad else 0


if __name__ == "__main__":
    sys.exit(main())
