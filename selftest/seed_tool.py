#!/usr/bin/env python3
"""Seeded-change tooling.

  seed_tool.py confirm <seed_dir>          # independent confirmation in a fresh scratch worktree of /repo HEAD:
                                           #   demo PASS unchanged, patch applies, test-suite passes, demo FAIL changed
  seed_tool.py check <seed_dir> [PROP...]  # run ./check PROP against a scratch copy of /repo/src with the patch applied
  seed_tool.py all                         # `check` for every /verif/seeded/* against the property in its meta.json
"""
import json
import os
import shutil
import subprocess
import sys
import tempfile
import time

HERE = os.path.dirname(os.path.abspath(__file__))
VERIF = os.path.dirname(HERE)


def sh(cmd, **kw):
    return subprocess.run(cmd, shell=True, capture_output=True, text=True, **kw)


def confirm(seed):
    seed = os.path.abspath(seed)
    wt = tempfile.mkdtemp(prefix="seedwt_")
    os.rmdir(wt)
    out = {}
    try:
        r = sh(f"git -C /repo worktree add -q --detach {wt} HEAD")
        assert r.returncode == 0, r.stderr
        env = dict(os.environ, PYTHONPATH=f"{wt}/src")
        r = sh(f"/venv/bin/python {seed}/demo.py", cwd=wt, env=env)
        out["demo_unchanged"] = r.returncode
        r = sh(f"git apply {seed}/patch.diff", cwd=wt)
        out["apply"] = r.returncode
        r = sh("/venv/bin/python -m pytest -q -p no:cacheprovider --timeout=900 tests 2>&1 | tail -1", cwd=wt, env=env)
        out["tests"] = r.stdout.strip()
        r = sh(f"/venv/bin/python {seed}/demo.py", cwd=wt, env=env)
        out["demo_changed"] = r.returncode
        out["demo_output"] = (r.stdout + r.stderr)[-600:]
    finally:
        sh(f"git -C /repo worktree remove --force {wt}")
        shutil.rmtree(wt, ignore_errors=True)
    out["confirmed"] = (out.get("demo_unchanged") == 0 and out.get("apply") == 0 and out.get("demo_changed") == 1
                        and "432 passed" in out.get("tests", "") and "failed" not in out.get("tests", ""))
    return out


def check(seed, props):
    seed = os.path.abspath(seed)
    d = tempfile.mkdtemp(prefix="seedchk_")
    res = {}
    try:
        shutil.copytree("/repo/src", os.path.join(d, "src"))
        r = sh(f"patch -p1 -s < {seed}/patch.diff", cwd=d)
        if r.returncode != 0:
            return {"error": "patch failed: " + r.stdout + r.stderr}
        for p in props:
            env = dict(os.environ, PYTHONPATH=os.path.join(d, "src"), PYVC_REPO_SRC=os.path.join(d, "src"),
                       PYVC_EVIDENCE_DIR=os.path.join(d, "evidence"), PYVC_REPLAY_DIR=os.path.join(d, "replays"))
            t0 = time.time()
            r = subprocess.run([os.path.join(VERIF, "check"), p], env=env, capture_output=True, text=True)
            lines = [l for l in r.stdout.splitlines() if l.startswith(("VIOLATION", "["))]
            res[p] = {"exit": r.returncode, "seconds": round(time.time() - t0), "lines": [l[:300] for l in lines[:4]]}
    finally:
        shutil.rmtree(d, ignore_errors=True)
    return res


def main():
    cmd = sys.argv[1]
    if cmd == "confirm":
        print(json.dumps(confirm(sys.argv[2]), indent=1))
    elif cmd == "check":
        print(json.dumps(check(sys.argv[2], sys.argv[3:]), indent=1))
    elif cmd == "all":
        root = os.path.join(VERIF, "seeded")
        bad = 0
        only = set(sys.argv[2:])
        rp = os.path.join(HERE, "seed_results.json")
        results = json.load(open(rp)) if only and os.path.exists(rp) else {}
        for name in sorted(os.listdir(root)):
            sd = os.path.join(root, name)
            mp = os.path.join(sd, "meta.json")
            if not os.path.exists(mp):
                continue
            meta = json.load(open(mp))
            if meta.get("status") == "superseded":
                continue
            props = meta.get("checked_by") or [meta["property"]]
            if only and name not in only:
                continue
            r = check(sd, props)
            if "error" in r:
                print(f"STALE  {name} {r['error'][:150]}", flush=True)
                results[name] = {"what": meta.get("what"), "caught": False, "error": r["error"][:200]}
                bad += 1
                continue
            caught = any(v.get("exit") == 1 for v in r.values() if isinstance(v, dict))
            first = next((l.split("obligation=", 1)[1] for v in r.values() if isinstance(v, dict) for l in v.get("lines", []) if "obligation=" in l), "")
            print(f"{'CAUGHT' if caught else 'MISSED'} {name} " + " ".join(f"{k}:exit={v.get('exit')}" for k, v in r.items()) + f" first={first[:140]}", flush=True)
            results[name] = {"what": meta.get("what"), "caught": caught, "by": {k: v.get("exit") for k, v in r.items()}, "first_obligation": first[:200]}
            bad += not caught
        json.dump(results, open(os.path.join(HERE, "seed_results.json"), "w"), indent=1)
        return 1 if bad else 0
    return 0


if __name__ == "__main__":
    sys.exit(main())
