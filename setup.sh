#!/bin/bash
# Build the overlay venv: python 3.12 (same interpreter as /venv, so the repo's editable install and its
# third-party deps are importable) + z3-solver and jsonschema from the offline wheelhouse.
set -e
cd "$(dirname "$0")"
if [ -x .venv/bin/python ] && .venv/bin/python -c "import z3, celpy, jsonschema" 2>/dev/null; then
  exit 0
fi
rm -rf .venv
/venv/bin/python -m venv .venv
PIP_NO_INDEX=1 .venv/bin/python -m pip install -q --no-index --find-links /opt/veriftools/wheels z3-solver jsonschema
SP=$(.venv/bin/python -c "import sysconfig; print(sysconfig.get_paths()['purelib'])")
echo "import site; site.addsitedir('/venv/lib/python3.12/site-packages')" > "$SP/_overlay.pth"
.venv/bin/python -c "import z3, celpy, lark, jsonschema; print('pyvc venv ok', z3.get_version_string())"
